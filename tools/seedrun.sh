#!/bin/sh
# tools/seedrun.sh <patch.diff> <id> [<id>...]
# Applies a seeded change to a scratch copy of /repo (never /repo itself), checks that it
# builds and that the existing suite still passes there, runs the quick checks of the given
# properties against the copy (VERIF_REPO) and removes the copy.
patch="$1"; shift
here="$(cd "$(dirname "$0")/.." && pwd)"
export GOFLAGS=-mod=mod GOPROXY=off GOSUMDB=off GOTOOLCHAIN=local
scratch=/var/tmp/seedrun-$$
rm -rf "$scratch"; mkdir -p "$scratch"
h=$(printf %s "$scratch" | sha256sum | cut -c1-8)
trap 'rm -rf "$scratch"; rm -f "$here"/.build/alt-$h.mod "$here"/.build/alt-$h.sum "$here"/.build/props-$h.test "$here"/.build/props-$h.race.test' EXIT INT TERM
rsync -a --exclude .git /repo/ "$scratch"/
if ! (cd "$scratch" && patch -p1 -s --no-backup-if-mismatch < "$patch" >/dev/null 2>&1); then echo "seedrun: patch does not apply: $patch"; exit 3; fi
if ! (cd "$scratch" && go build ./... 2>/tmp/seedrun-build.log); then echo "seedrun: does not compile"; cat /tmp/seedrun-build.log; exit 3; fi
if [ -z "$SEEDRUN_SKIP_TESTS" ]; then
  if ! (cd "$scratch" && go test -vet=off -count=1 ./... >/tmp/seedrun-test.log 2>&1); then echo "seedrun: existing tests FAIL with this change"; tail -5 /tmp/seedrun-test.log; fi
fi
cd "$here" || exit 2
for id in "$@"; do
  start=$(date +%s)
  out=$(VERIF_REPO="$scratch" ./check "$id" ${SEEDRUN_TIER:-quick} 2>&1); code=$?
  end=$(date +%s)
  echo "== $(basename $(dirname $patch))/$(basename $patch) vs $id: exit=$code in $((end-start))s"
  echo "$out" | grep -E "VIOLATION|REPLAY-VIOLATION|failed after|data race|DATA RACE" | cut -c1-400 | head -4
done
