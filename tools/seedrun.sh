#!/bin/sh
# tools/seedrun.sh <patch.diff> <id> [<id>...]
# Applies a seeded change to /repo, runs the quick checks of the given properties, reverts.
patch="$1"; shift
cd /repo || exit 2
if [ -n "$(git status --porcelain)" ]; then echo "seedrun: /repo is dirty"; exit 2; fi
if ! git apply "$patch" 2>/dev/null; then
  if ! git apply -3 "$patch" 2>/dev/null; then echo "seedrun: patch does not apply: $patch"; git checkout -- . ; exit 3; fi
  git reset -q
fi
trap 'cd /repo && git checkout -- . && git clean -fdq' EXIT INT TERM
export GOFLAGS=-mod=mod GOPROXY=off GOSUMDB=off GOTOOLCHAIN=local
if ! go build ./... 2>/tmp/seedrun-build.log; then echo "seedrun: does not compile"; cat /tmp/seedrun-build.log; exit 3; fi
if [ -z "$SEEDRUN_SKIP_TESTS" ]; then
  if ! go test -vet=off -count=1 ./... >/tmp/seedrun-test.log 2>&1; then echo "seedrun: existing tests FAIL with this change"; tail -5 /tmp/seedrun-test.log; fi
fi
cd /verif
for id in "$@"; do
  start=$(date +%s)
  out=$(./check "$id" ${SEEDRUN_TIER:-quick} 2>&1); code=$?
  end=$(date +%s)
  echo "== $(basename $(dirname $patch))/$(basename $patch) vs $id: exit=$code in $((end-start))s"
  echo "$out" | grep -E "VIOLATION|REPLAY-VIOLATION|failed after|data race|DATA RACE" | cut -c1-400 | head -4
done
