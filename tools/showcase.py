#!/usr/bin/env python3
import json,sys
d=json.load(open(sys.argv[1]))
print(d.get('violation'))
c=d['case']
def S(s):
    k=s['k']
    b={'lit':lambda:s['lit'],'var':lambda:'{'+s['name']+'}','re':lambda:'{'+s['name']+':'+s['re']+'}','affix':lambda:s.get('pre','')+'{'+s['name']+'}'+s.get('suf',''),'tail':lambda:'{'+s['name']+':*}'}[k]()
    return b+(':'+s['verb'] if s.get('verb') else '')
def T(t): return '/'+'/'.join(S(s) for s in (t or []))
print({k:v for k,v in c.items() if k not in('table','reqs')})
if 'table' in c:
  for s in c['table']['services']:
    print('root', T(s['root']), {k:v for k,v in s.items() if k not in('root','routes')})
    for r in (s['routes'] or []): print('   ', r['id'], r['method'], T(r['path']), {k:v for k,v in r.items() if k not in('id','method','path')})
for q in c.get('reqs',[]): print(q)
