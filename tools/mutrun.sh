#!/bin/sh
# tools/mutrun.sh <file.go> <n>  - one syntactic mutant (tools/mutate) of /repo's <file.go>:
# scratch copy, build, existing suite, then the quick checks of the properties anchored in
# that file until one reports a violation. Prints one line:
#   MUT <file>#<n> L<line> <operator> => nocompile | suite | caught:<id> | SURVIVED | inconclusive:<id>
file="$1"; n="$2"
here="$(cd "$(dirname "$0")/.." && pwd)"
export GOFLAGS=-mod=mod GOPROXY=off GOSUMDB=off GOTOOLCHAIN=local
case "$file" in
  curly.go|curly_route.go|custom_verb.go|path_processor.go) ids="C02 C01 C03 C18 C04 C14" ;;
  jsr311.go|path_expression.go) ids="C02 C01 C03 C18 C04 C14 C17" ;;
  route.go) ids="C02 C05 C01 C03 C04 C18" ;;
  container.go) ids="C10 C11 C17 C06 C07 C14 C12 C02" ;;
  response.go) ids="C05 C15 C10 C07" ;;
  mime.go|entity_accessors.go) ids="C05 C16 C02" ;;
  request.go) ids="C16 C04 C13" ;;
  compress.go|compressor_cache.go|compressor_pools.go) ids="C07 C13 C10" ;;
  cors_filter.go) ids="C08 C09 C19" ;;
  options_filter.go) ids="C17 C09" ;;
  filter.go|filter_adapter.go) ids="C06 C15" ;;
  web_service.go|route_builder.go) ids="C01 C02 C11 C04 C05 C17 C12" ;;
  web_service_container.go) ids="C10 C17 C11 C02" ;;
  service_error.go) ids="C05 C02 C15 C19" ;;
  logger.go|log/log.go) ids="C02 C05 C19" ;;
  *) ids="C01 C02 C03 C04 C05 C06 C07 C08 C09 C10 C11 C12 C13 C14 C15 C16 C17 C18 C19" ;;
esac
[ -n "$MUT_IDS" ] && ids="$MUT_IDS"
desc=$("$here"/bin/mutate list /repo "$file" | awk -v n="$n" '$1==n { $1=""; print "L" substr($0,2) }')
scratch=/var/tmp/mut-$$
rm -rf "$scratch"; mkdir -p "$scratch"
trap 'rm -rf "$scratch"' EXIT INT TERM
rsync -a --exclude .git /repo/ "$scratch"/
"$here"/bin/mutate apply /repo "$file" "$n" "$scratch/$file" || { echo "MUT $file#$n $desc => error"; exit 0; }
if ! (cd "$scratch" && go build ./... 2>/dev/null); then echo "MUT $file#$n $desc => nocompile"; exit 0; fi
if ! (cd "$scratch" && timeout 120 go test -vet=off -count=1 . >/dev/null 2>&1); then echo "MUT $file#$n $desc => suite"; exit 0; fi
cd "$here" || exit 2
verdict=SURVIVED
for id in $ids; do
  VERIF_REPO="$scratch" timeout 900 ./check "$id" quick >/dev/null 2>&1; code=$?
  if [ $code = 1 ]; then verdict="caught:$id"; break; fi
  if [ $code != 0 ]; then verdict="inconclusive:$id(exit$code)"; fi
done
echo "MUT $file#$n $desc => $verdict"
sum=$(printf %s "$scratch" | sha256sum | cut -c1-8)
rm -f "$here"/.build/props-$sum.test "$here"/.build/props-$sum.race.test "$here"/.build/alt-$sum.mod "$here"/.build/alt-$sum.sum
