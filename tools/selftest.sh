#!/bin/sh
# tools/selftest.sh [name-filter]
# Sensitivity self-test: every patch under mutants/ (reverse patches of the fixes) and
# seeded/*/patch.diff (changes written by independent sub-agents) is applied to a scratch
# copy of /repo (never /repo itself); the quick check of each listed property must then exit 1.
# The list of (patch, properties) is tools/selftest.list. Prints one line per pair.
cd "$(dirname "$0")/.." || exit 2
export GOFLAGS=-mod=mod GOPROXY=off GOSUMDB=off GOTOOLCHAIN=local
filter="$1"
fail=0
while read -r patch ids; do
  case "$patch" in ''|'#'*) continue;; esac
  [ -n "$filter" ] && ! echo "$patch" | grep -q "$filter" && continue
  scratch=/var/tmp/selftest-$$
  rm -rf "$scratch"; mkdir -p "$scratch"
  rsync -a --exclude .git /repo/ "$scratch"/
  if ! (cd "$scratch" && patch -p1 -s --no-backup-if-mismatch < "/verif/$patch" >/dev/null 2>&1); then
    echo "SELFTEST $patch: patch does not apply to the current tree"; fail=1; rm -rf "$scratch"; continue
  fi
  if ! (cd "$scratch" && go build ./... >/dev/null 2>&1); then
    echo "SELFTEST $patch: does not compile"; fail=1; rm -rf "$scratch"; continue
  fi
  for id in $ids; do
    start=$(date +%s)
    VERIF_REPO="$scratch" ./check "$id" quick >/tmp/selftest-$$.log 2>&1; code=$?
    end=$(date +%s)
    if [ $code = 1 ]; then res="caught"; else res="MISSED(exit=$code)"; fail=1; fi
    echo "SELFTEST $patch vs $id: $res in $((end-start))s"
  done
  rm -rf "$scratch" .build/alt-*.mod .build/alt-*.sum .build/props-*.test
done < tools/selftest.list
rm -f /tmp/selftest-$$.log
exit $fail
