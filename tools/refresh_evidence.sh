#!/bin/sh
# Re-runs every quick check on /repo (VERIF_SEED=1) so that the committed evidence files come
# from clean runs of the current tree, then validates MANIFEST.json and the evidence files.
cd "$(dirname "$0")/.." || exit 2
rc=0
for id in C01 C02 C03 C04 C05 C06 C07 C08 C09 C10 C11 C12 C13 C14 C15 C16 C17 C18 C19; do
  VERIF_SEED=1 ./check $id quick 2>&1 | grep -E "seed=|VIOLATION|vcheck" | cut -c1-200
done
python3-vt - <<'PY' || rc=1
import json, jsonschema, glob
jsonschema.validate(json.load(open('MANIFEST.json')), json.load(open('/root/.vp/MANIFEST.schema.json')))
sch = json.load(open('/root/.vp/EVIDENCE.schema.json'))
bad = 0
for f in sorted(glob.glob('evidence/*.json')):
    try:
        e = json.load(open(f)); jsonschema.validate(e, sch)
        assert e['violations'] == 0 and e['tier'] == 'quick', (f, e['violations'], e['tier'])
    except Exception as ex:
        bad += 1; print('INVALID', f, str(ex)[:200])
print('evidence files valid' if not bad else '%d invalid' % bad)
raise SystemExit(1 if bad else 0)
PY
exit $rc
