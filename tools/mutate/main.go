// mutate enumerates small syntactic mutations of go-restful's sources (one change at one
// position each) for the systematic half of the sensitivity self-test (DESIGN.md §6):
//
//	mutate list  <repo> <file.go>            one line per mutation: "<n> <line> <description>"
//	mutate apply <repo> <file.go> <n> <out>  writes the mutated file to <out>
//
// Operators: comparison and boolean operator swaps, negated if-conditions, removed call /
// inc-dec / defer statements, integer literal changes, break<->continue.
package main

import (
	"bytes"
	"fmt"
	"go/ast"
	"go/parser"
	"go/printer"
	"go/token"
	"os"
	"path/filepath"
	"strconv"
)

type mutation struct {
	line  int
	desc  string
	apply func()
	undo  func()
}

var swaps = map[token.Token][]token.Token{
	token.EQL: {token.NEQ}, token.NEQ: {token.EQL},
	token.LSS: {token.LEQ, token.GTR}, token.LEQ: {token.LSS}, token.GTR: {token.GEQ, token.LSS}, token.GEQ: {token.GTR},
	token.LAND: {token.LOR}, token.LOR: {token.LAND},
	token.ADD: {token.SUB}, token.SUB: {token.ADD},
}

func collect(fset *token.FileSet, f *ast.File) []mutation {
	var ms []mutation
	add := func(pos token.Pos, desc string, apply, undo func()) {
		ms = append(ms, mutation{fset.Position(pos).Line, desc, apply, undo})
	}
	ast.Inspect(f, func(n ast.Node) bool {
		switch x := n.(type) {
		case *ast.BinaryExpr:
			for _, to := range swaps[x.Op] {
				from := x.Op
				if from == token.ADD {
					if bl, ok := x.X.(*ast.BasicLit); ok && bl.Kind == token.STRING {
						continue
					}
					if bl, ok := x.Y.(*ast.BasicLit); ok && bl.Kind == token.STRING {
						continue
					}
				}
				add(x.OpPos, fmt.Sprintf("%s -> %s", from, to), func() { x.Op = to }, func() { x.Op = from })
			}
		case *ast.IfStmt:
			orig := x.Cond
			add(x.Cond.Pos(), "negate if-condition", func() { x.Cond = &ast.UnaryExpr{Op: token.NOT, X: &ast.ParenExpr{X: orig}} }, func() { x.Cond = orig })
		case *ast.BlockStmt:
			for i, st := range x.List {
				remove := func(what string) {
					add(st.Pos(), "remove "+what, func() { x.List[i] = &ast.EmptyStmt{Implicit: false, Semicolon: st.Pos()} }, func() { x.List[i] = st })
				}
				switch s := st.(type) {
				case *ast.ExprStmt:
					if _, ok := s.X.(*ast.CallExpr); ok {
						remove("call statement")
					}
				case *ast.IncDecStmt:
					remove("inc/dec statement")
				case *ast.DeferStmt:
					remove("defer statement")
				case *ast.BranchStmt:
					if s.Tok == token.BREAK && s.Label == nil {
						add(s.Pos(), "break -> continue", func() { s.Tok = token.CONTINUE }, func() { s.Tok = token.BREAK })
					} else if s.Tok == token.CONTINUE && s.Label == nil {
						add(s.Pos(), "continue -> break", func() { s.Tok = token.BREAK }, func() { s.Tok = token.CONTINUE })
					}
				case *ast.AssignStmt:
					if s.Tok == token.ASSIGN || s.Tok == token.ADD_ASSIGN {
						if len(s.Lhs) == 1 {
							if _, isIdent := s.Lhs[0].(*ast.Ident); !isIdent || s.Tok == token.ADD_ASSIGN {
								remove("assignment")
							}
						}
					}
				}
			}
		case *ast.BasicLit:
			if x.Kind == token.INT {
				v, err := strconv.Atoi(x.Value)
				if err == nil && v <= 1000 {
					orig := x.Value
					nv := strconv.Itoa(v + 1)
					if v == 1 {
						nv = "0"
					}
					add(x.Pos(), fmt.Sprintf("integer %s -> %s", orig, nv), func() { x.Value = nv }, func() { x.Value = orig })
				}
			}
		}
		return true
	})
	return ms
}

func main() {
	if len(os.Args) < 4 {
		fmt.Fprintln(os.Stderr, "usage: mutate list <repo> <file> | apply <repo> <file> <n> <out>")
		os.Exit(2)
	}
	fset := token.NewFileSet()
	path := filepath.Join(os.Args[2], os.Args[3])
	f, err := parser.ParseFile(fset, path, nil, parser.ParseComments)
	if err != nil {
		fmt.Fprintln(os.Stderr, err)
		os.Exit(2)
	}
	ms := collect(fset, f)
	switch os.Args[1] {
	case "list":
		for i, m := range ms {
			fmt.Printf("%d %d %s\n", i, m.line, m.desc)
		}
	case "apply":
		n, _ := strconv.Atoi(os.Args[4])
		if n < 0 || n >= len(ms) {
			os.Exit(2)
		}
		ms[n].apply()
		var buf bytes.Buffer
		if err := (&printer.Config{Mode: printer.UseSpaces | printer.TabIndent, Tabwidth: 8}).Fprint(&buf, fset, f); err != nil {
			fmt.Fprintln(os.Stderr, err)
			os.Exit(2)
		}
		if err := os.WriteFile(os.Args[5], buf.Bytes(), 0o644); err != nil {
			fmt.Fprintln(os.Stderr, err)
			os.Exit(2)
		}
	}
}
