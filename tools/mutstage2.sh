#!/bin/sh
# tools/mutstage2.sh [-j N] <stage1.log>  - re-runs the mutants a first (scaled-down) pass of
# tools/mutall.sh left alive or without a verdict, at full quick size.
here="$(cd "$(dirname "$0")/.." && pwd)"
j=4
[ "$1" = "-j" ] && { j="$2"; shift 2; }
export GOFLAGS=-mod=mod GOPROXY=off GOSUMDB=off GOTOOLCHAIN=local
(cd "$here" && go build -o bin/mutate ./tools/mutate && ./check list >/dev/null) || exit 2
unset VERIF_SCALE
grep -E "^MUT .* => (SURVIVED|inconclusive)" "$1" | sed -E 's/^MUT ([^#]+)#([0-9]+) .*/\1 \2/' | xargs -P "$j" -L 1 "$here"/tools/mutrun.sh
