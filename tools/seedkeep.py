#!/usr/bin/env python3
"""tools/seedkeep.py <name> <property> <outdir> <m> <verify-result> <caught-by-json>
Stores a confirmed seeded change under seeded/<name>/ (patch.diff, demo_test.go.txt, meta.json)."""
import json, os, shutil, subprocess, sys
name, prop, outdir, m, verify, caught = sys.argv[1:7]
root = os.path.dirname(os.path.dirname(os.path.abspath(__file__)))
d = os.path.join(root, "seeded", name)
os.makedirs(d, exist_ok=True)
shutil.copy(os.path.join(outdir, m + ".diff"), os.path.join(d, "patch.diff"))
shutil.copy(os.path.join(outdir, m + "_demo_test.go"), os.path.join(d, "demo_test.go.txt"))
md = open(os.path.join(outdir, m + ".md")).read()
head = subprocess.check_output(["git", "-C", "/repo", "log", "--format=%h", "-1"]).decode().strip()
meta = {
    "name": name,
    "breaks_property": prop,
    "origin": "independent sub-agent given only the property text and a scratch worktree of the pinned commit",
    "description_by_author": md,
    "confirmed": {"on_repo_head": head, "how": "tools/seedverify.sh (scratch worktree of /repo HEAD: demo passes without the change; with it the tree builds, the existing suite passes, the demo fails)", "result": verify},
    "checks_run": json.loads(caught),
}
json.dump(meta, open(os.path.join(d, "meta.json"), "w"), indent=1)
print("kept", d)
