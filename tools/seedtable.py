#!/usr/bin/env python3
"""Regenerates the table of seeded changes in DESIGN.md (between the SEEDTABLE markers) from
seeded/*/meta.json and the one-line descriptions below."""
import glob, json, os, re
root = os.path.dirname(os.path.dirname(os.path.abspath(__file__)))
what = {
'C01-m1-stale-candidate-slice':'`detectRoute` filters a stale slice: a wrong-method route wins when every right-method route fails Consumes/Produces',
'C01-m2-verb-match-loses-colon':'custom verb compared without the colon: `/orders/precancel` runs `/{id}:cancel`',
'C02-m1-affix-overlap-panic':'length guard dropped from the affix matcher: `/foo_bar` on `foo_{v}_bar` panics while binding',
'C02-m2-jsr311-plain-error-200':'RouterJSR311 returns a plain error for "no service": 200 with empty body instead of 404',
'C03-m1-inconsistent-comparator':'one branch dropped from `sortableCurlyRoutes.Less`: order-dependent winner for tail vs. multi-parameter route',
'C03-m2-affix-counted-static':'affixed parameter counted as static: `/files/{name}.json` beats `/files/index.json`',
'C04-m1-verb-stripped-from-every-segment':'verb suffix stripped from every segment of a verb route: `acme:eu` bound as `acme`',
'C04-m2-cached-expression-leaks-names':'path-expression cache keyed by regex source: variable names leak between same-shaped templates (JSR311)',
'C05-m1-unstable-sort-over-12-ranges':'`sort.Slice` instead of stable insertion: ties reordered for > 12 ranges',
'C05-m2-dropped-writer-check':'writer lookup result returned unchecked: 406 when the best-ranked produced type has no writer',
'C06-m1-chain-aliases-container-filters':"composed chain appended onto the container's filter slice (shared backing array)",
'C06-m2-pooled-chain-not-rewound-after-panic':'pooled `FilterChain` returned with `Index>0` after a panic: next request skips filters',
'C07-m1-recover-writes-raw-writer':'recover handler given the raw writer under a dispatch-installed compressor',
'C07-m2-close-never-marks-closed':'`Close` nils a local: second deferred Close releases the compressor twice',
'C08-m1-prefix-match':'allowed-domain comparison became `HasPrefix`',
'C08-m2-preflight-before-origin-check':'preflight answered before the origin check + dropped re-check in `setAllowOriginHeader`',
'C09-m1-sticky-computed-methods':'pointer receiver on `Filter`: computed methods stick to the filter',
'C09-m2-last-header-decides':'only the last requested header decides the preflight',
'C10-m1-recover-gets-writer-captured-at-defer':'recover handler gets the writer evaluated at defer time (not the compressing one)',
'C10-m2-recovery-installed-after-error-return':'recovery installed after the routing-error early return',
'C11-m1-remove-drops-root-guard':'`Remove` re-registers without the "already on root" guard',
'C11-m2-removeroute-skips-adjacent-duplicate':'in-place deletion in `RemoveRoute` skips the element after a removed one',
'C12-m1-reentrant-read-lock-deadlock':'`defer RUnlock` in `computeAllowedMethods` + nested `RLock`: deadlock with a queued writer',
'C12-m2-removeroute-lost-update':'`RemoveRoute` filters a snapshot outside the lock: concurrent `Route` is lost',
'C13-m1-compressor-closed-after-release':'compressor flushed/closed after it was released to the pool',
'C13-m2-gzip-reader-double-release':'gzip reader released twice when `Reset` fails',
'C14-m1-tail-keeps-trailing-slash':'tail value taken from the raw path: keeps the trailing slash',
'C14-m2-options-allow-wrong-variable':'`computeAllowedMethods` tests the service remainder instead of the route remainder',
'C15-m1-partial-write-not-counted':'`Response.Write` returns before counting on error: partial acceptance lost',
'C15-m2-406-bypasses-status':'406 written to the underlying writer directly: `StatusCode()` stays 200',
'C16-m1-gzip-reader-double-release':'gzip reader released twice on a broken header',
'C16-m2-multistream-off':'`Multistream(false)` on request bodies: multi-member gzip cut short',
'C17-m1-allow-dedup-flag-never-reset':'405 Allow de-duplication flag never reset: later methods dropped',
'C17-m2-break-instead-of-continue':'`break` instead of `continue` in `computeAllowedMethods`: nested roots list nothing',
'C18-m1-root-route-swallows-paths':'zero-token route matches any longer path (CurlyRouter)',
'C18-m2-jsr311-nonstrict-tiebreak':'`<=` in the JSR311 tie-break: fully tied routes come out in reverse order',
'C19-m1-filter-slice-aliasing':'chain built with `append(c.containerFilters, …)` (shared backing array)',
'C19-m2-cors-pointer-receiver':"CORS `Filter` with pointer receiver: first preflight's methods persist",
'C01-r2m1-noct-override-extends-default':'`AllowedMethodsWithoutContentType` extends the default list instead of replacing it',
'C01-r2m2-tokenizer-collapses-empty-segments':'`tokenizePath` with `FieldsFunc`: `/api//admin/users` runs the three-segment route',
'C02-r2m1-pooled-route-slice':'per-request route slice returned to a `sync.Pool` before `dispatch` reads the selected route',
'C02-r2m2-verb-without-colon':'verb check with `HasSuffix(letters)` (same idea as C01-m2, found independently)',
'C03-r2m1-curly-matches-escaped-path':'CurlyRouter tokenizes `URL.EscapedPath()`: encoded literals lose against variables',
'C03-r2m2-jsr311-only-head-sorted':'JSR311 candidates: only the best one moved to the front, the rest unsorted',
'C04-r2m1-last-colon-split':'parameter name/expression split at the last colon: `{at:\\d+:\\d+}` bound under a garbage name',
'C04-r2m2-stale-path-processor-after-router-swap':"the router's PathProcessor cached in `Router()` and not cleared by a later `Router()`",
'C05-r2m1-router-joins-accept-lines':'router joins all Accept lines, entity writer reads the first only',
'C05-r2m2-lookup-lowercases-key':'accessor lookup lower-cases the type, registration keeps the key verbatim',
'C06-r2m1-error-writer-gets-outer-pair':'service-error writer bound to the pair the chain started with',
'C06-r2m2-adapter-restores-fields-after-async-middleware':'middleware adapter restores Request/Writer fields in a defer (breaks asynchronous middlewares)',
'C07-r2m1-handle-captures-switch-at-registration':'`Handle` captures the encoding switch when the handler is registered',
'C07-r2m2-helper-writer-closed-after-release':'`newGzipReader` closes its helper gzip writer after releasing it',
'C08-r2m1-chain-appended-to-container-slice':'chain appended to the container slice (same idea as C06-m1, found independently)',
'C08-r2m2-blank-domains-unrestricted':'"no restriction" tested on the normalised list: a list of blank entries allows everyone',
'C09-r2m1-jsr311-drops-service-on-error':'RouterJSR311 returns a nil WebService on a routing error: computed methods empty',
'C09-r2m2-computed-methods-cached-per-path':'computed methods cached per URL, reset only by Add/Remove',
'C10-r2m1-pooled-report-buffer-not-reset':'default recover handler pools its buffer without Reset: earlier panic reports leak',
'C10-r2m2-handle-panic-leaves-lock-held':'`Handle` unlocks explicitly instead of deferred: a duplicate-pattern panic leaves the lock held',
'C11-r2m1-remove-deletes-shared-pattern-entry':"`Remove` deletes the removed service's pattern records although survivors share them",
'C11-r2m2-slash-twin-recorded-under-wrong-key':'`pattern+"/"` recorded under the key `pattern`',
'C12-r2m1-read-lock-leaks-when-selection-panics':'route selection no longer in a closure with deferred unlock: a panicking condition leaks the read lock',
'C12-r2m2-remove-drops-services-after-root-mapped':'`Remove` drops every service registered after a root-mapped one',
'C13-r2m1-failed-close-leaves-writer-open':'`Close` returns the flush error before marking the writer closed',
'C13-r2m2-acquire-len-check-then-blocking-receive':'`Acquire*` tests `len(ch)` and then receives blocking',
'C14-r2m1-only-subtree-pattern-registered':'only `prefix/` recorded per fixed prefix: `/shop` after `/shop/{id}` is never registered',
'C14-r2m2-jsr311-literal-root-shortcut':'JSR311 returns a literal root at once when the final group is empty (not for `p/`)',
'C15-r2m1-adapter-continues-with-response-copy':'middleware adapter continues with a by-value copy of the Response',
'C15-r2m2-writeheader-204-closes-compressor':'compressing writer closes itself on 204/304 before forwarding the status',
'C16-r2m1-map-write-under-read-lock':'accessor reverse lookup memoised with a map write under `RLock`',
'C16-r2m2-compressed-body-decoded-twice-on-default-type':'default-type fallback re-enters `ReadEntity`: second decompressor stacked',
'C17-r2m1-reentrant-read-lock':'same idea as C12-m1, found independently',
'C17-r2m2-literal-segments-path-escaped':'literal template segments `url.PathEscape`d in the compiled expression',
'C18-r2m1-jsr311-percent-encodes-literals':'same change as C17-r2m2, found independently',
'C18-r2m2-curly-strips-verb-from-every-token':'CurlyRouter strips `:letters` from every request token',
'C19-r2m1-close-early-return-skips-reset':'same change as C13-r2m1, found independently',
'C19-r2m2-bad-q-handling-depends-on-trace':'malformed q-value dropped only when trace logging is on',
'R3A-m1-foreign-content-encoding-recompressed':'`wantsCompressedResponse` only honours a pre-set `gzip`/`deflate`: a body already labelled `br`/`identity` is encoded again',
'R3A-m2-zlib-cache-sized-by-reader-capacity':'`zlibWriters` channel sized with `readersCapacity`: constructor blocks when writers > readers',
'R3A-m3-gzip-reader-released-into-zlib-writer-pool':'`ReleaseGzipReader` puts into `ZlibWriterPool`: a later deflate response panics on the type assertion',
'R3B-m1-accept-trimmed-before-cut-at-semicolon':'`matchesAccept` trims before cutting at `;`: `application/xml ;q=0.9` is refused with 406',
'R3B-m2-media-defaults-reuse-backing-array':"`WebService.Produces/Consumes` reuse the previous list's backing array: routes built earlier change their media types",
'R3B-m3-default-container-recovers':'`init()` applies the obsolete package variable: the DefaultContainer recovers from panics',
'R3C-m1-condition-flag-not-reset-per-route':'`ok` flag of the If-condition loop hoisted out of the route loop: one failing route disables the rest',
'R3C-m2-jsr311-reads-routes-field-without-lock':'`RouterJSR311.selectRoutes` ranges over `dispatcher.routes` instead of `Routes()` (data race)',
'R3C-m3-multiline-flag-on-path-expressions':'path expressions compiled with `(?ms)`: `^`/`$` match at a newline inside the path',
'R3D-m1-plain-root-parameter-scores-zero':'plain `{var}` root tokens score 0: `/{tenant}` ties with `/`, registration order decides',
'R3D-m2-trace-line-dereferences-nil-service':'new trace line prints `best.rootPath` when no service matched (nil) – only with tracing on',
'R3D-m3-trimleft-eats-value-prefix':'affix prefix removed with `strings.TrimLeft` (a character set): `order-red-17` binds `17`',
'R3E-m1-servehttp-no-longer-closes-compressor':"`ServeHTTP`'s deferred `Close` of its own compressing writer removed: `Handle` targets and mux errors end truncated",
'R3E-m2-plain-handler-gets-raw-writer':'`HandleWithFilter` hands the plain handler `resp.ResponseWriter`: filters observe status 200 / length 0',
'R3E-m3-empty-fixed-prefix-not-mapped-on-root':'`"" == pattern` dropped in `addHandler`: root `{tenant}/items` panics in ServeMux',
'R3F-m1-gzip-reader-released-before-body-is-read':'decompression set-up moved into a helper together with its `defer Release`: reader released before the body is read',
'R3F-m2-compact-xml-content-type-after-writeheader':'compact XML: `Content-Type` set after `WriteHeader` (never sent)',
'R3F-m3-q-without-equals-indexes-out-of-range':'`SplitN(param,"=",2)` without the length guard: `Accept: application/json;q` panics in `sortedMimes`',
'R3G-m1-tracelogger-nil-leaves-tracing-on':'`TraceLogger(nil)` no longer switches tracing off: every traced path dereferences a nil logger',
'R3G-m2-adapter-shares-request-state-between-requests':'middleware wrapped once per filter: req/resp/chain handed over through shared variables',
'R3G-m3-empty-allowed-headers-grants-all':'empty `AllowedHeaders` treated as "no restriction" in the preflight',
}
rows = []
for d in sorted(glob.glob(os.path.join(root, 'seeded', '*', ''))):
    n = os.path.basename(os.path.dirname(d))
    m = json.load(open(os.path.join(d, 'meta.json')))
    res = '; '.join(c['check'] + ': ' + c['result'] for c in m['checks_run']).replace('|', '/')
    rows.append('| `%s` | %s | %s | %s |' % (n, m['breaks_property'], what.get(n, ''), res))
tbl = '| seeded change | breaks | what it does | outcome |\n|---|---|---|---|\n' + '\n'.join(rows) + '\n'
p = os.path.join(root, 'DESIGN.md')
s = open(p).read()
a, b = '<!-- SEEDTABLE BEGIN -->', '<!-- SEEDTABLE END -->'
if a in s:
    s = s[:s.index(a) + len(a)] + '\n' + tbl + s[s.index(b):]
else:
    i = s.index('| seeded change | breaks |')
    j = s.index('\n---------', i)
    s = s[:i] + a + '\n' + tbl + b + '\n' + s[j:]
open(p, 'w').write(s)
print(len(rows), 'rows')
