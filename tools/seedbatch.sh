#!/bin/sh
# tools/seedbatch.sh <outdir> [m1 m2 ...]  - for every mK in a sub-agent's output directory:
# confirm it (seedverify) and run all nineteen quick checks against it (seedall); one block
# per change is appended to <outdir>/results.txt.
out="$1"; shift
here="$(cd "$(dirname "$0")/.." && pwd)"
ms="$*"; [ -z "$ms" ] && ms=$(cd "$out" && ls m*.diff | sed 's/\.diff$//')
for m in $ms; do
  {
    echo "#### $out/$m"
    SEEDVERIFY_RACE=$(grep -qi 'race detector\|-race' "$out/$m.md" 2>/dev/null && echo 1) "$here"/tools/seedverify.sh "$out/$m.diff" "$out/${m}_demo_test.go"
    "$here"/tools/seedall.sh "$out/$m.diff"
  } >> "$out/results.txt" 2>&1
done
