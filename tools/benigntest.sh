#!/bin/sh
# tools/benigntest.sh [patch...]  - the false-alarm side of the self-test: every patch of
# tools/benign.list (changes that keep all nineteen properties) goes through all nineteen
# quick checks on a scratch copy; every check must stay silent (exit 0).
here="$(cd "$(dirname "$0")/.." && pwd)"
cd "$here" || exit 2
list="$*"
[ -z "$list" ] && list=$(cat tools/benign.list)
bad=0
for p in $list; do
  out=$(tools/seedall.sh "$here/$p" 2>&1)
  echo "$out" | grep -E "exit=[^0]|does not apply|does not compile|tests FAIL"
  line=$(echo "$out" | grep "^SEEDALL")
  case "$line" in
    *"caught by: NONE") echo "BENIGN ok    $p" ;;
    *) echo "BENIGN ALARM $p: $line"; bad=1 ;;
  esac
done
exit $bad
