#!/bin/sh
# tools/seedall.sh <patch.diff> [ids...]   - run every (or the given) quick check against a
# scratch copy of /repo with the patch applied; prints one line per check and a summary.
patch="$1"; shift
here="$(cd "$(dirname "$0")/.." && pwd)"
ids="$*"
[ -z "$ids" ] && ids="C01 C02 C03 C04 C05 C06 C07 C08 C09 C10 C11 C12 C13 C14 C15 C16 C17 C18 C19"
export GOFLAGS=-mod=mod GOPROXY=off GOSUMDB=off GOTOOLCHAIN=local
scratch=/var/tmp/seedall-$$
rm -rf "$scratch"; mkdir -p "$scratch"
trap 'rm -rf "$scratch"' EXIT INT TERM
rsync -a --exclude .git /repo/ "$scratch"/
if ! (cd "$scratch" && patch -p1 -s --no-backup-if-mismatch < "$patch" >/dev/null 2>&1); then echo "seedall: patch does not apply: $patch"; exit 3; fi
if ! (cd "$scratch" && go build ./... 2>/dev/null); then echo "seedall: does not compile"; exit 3; fi
(cd "$scratch" && go test -vet=off -count=1 ./... >/dev/null 2>&1) || echo "seedall: existing tests FAIL with this change"
cd "$here" || exit 2
caught=""
for id in $ids; do
  start=$(date +%s)
  out=$(VERIF_REPO="$scratch" ./check "$id" quick 2>&1); code=$?
  end=$(date +%s)
  msg=$(echo "$out" | grep -E "failed after|REPLAY-VIOLATION|data race" | head -1 | cut -c1-220)
  echo "  $id exit=$code $((end-start))s $msg"
  [ $code = 1 ] && caught="$caught $id"
done
echo "SEEDALL $(basename $(dirname $patch))/$(basename $patch): caught by:${caught:- NONE}"
h=$(printf %s "$scratch" | sha256sum | cut -c1-8)
rm -f "$here"/.build/props-$h.test "$here"/.build/props-$h.race.test "$here"/.build/alt-$h.mod "$here"/.build/alt-$h.sum
