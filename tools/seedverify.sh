#!/bin/sh
# tools/seedverify.sh <patch.diff> <demo_test.go>
# Confirms in a scratch worktree of /repo's HEAD: demo passes without the change; with the
# change the tree compiles, the existing suite passes and the demo fails. Prints one line.
patch="$1"; demo="$2"
export GOFLAGS=-mod=mod GOPROXY=off GOSUMDB=off GOTOOLCHAIN=local
wt=/var/tmp/seedverify-$$
git -C /repo worktree add -q --detach "$wt" HEAD || exit 2
trap 'git -C /repo worktree remove --force "$wt" >/dev/null 2>&1; git -C /repo worktree prune' EXIT INT TERM
cp "$demo" "$wt/zz_demo_test.go"
cd "$wt" || exit 2
race=""
[ -n "$SEEDVERIFY_RACE" ] && race="-race"
go test $race -vet=off -count=1 -run 'Demo' . >/tmp/sv-clean.log 2>&1; clean=$?
if ! git apply "$patch" 2>/dev/null; then git apply -3 "$patch" >/dev/null 2>&1 || { echo "RESULT apply=FAIL"; exit 3; }; fi
go build ./... >/tmp/sv-build.log 2>&1; build=$?
go test -vet=off -count=1 -skip 'Demo' ./... >/tmp/sv-suite.log 2>&1; suite=$?
go test $race -vet=off -count=1 -run 'Demo' . >/tmp/sv-mut.log 2>&1; mut=$?
echo "RESULT demo_without_change=$([ $clean = 0 ] && echo pass || echo FAIL) build=$([ $build = 0 ] && echo ok || echo FAIL) suite_with_change=$([ $suite = 0 ] && echo pass || echo FAIL) demo_with_change=$([ $mut = 0 ] && echo PASS-unexpected || echo fail-as-expected)"
