#!/bin/sh
# tools/mutall.sh [-j N] <file.go>...  - every syntactic mutant of the given files through tools/mutrun.sh
here="$(cd "$(dirname "$0")/.." && pwd)"
j=4
[ "$1" = "-j" ] && { j="$2"; shift 2; }
export GOFLAGS=-mod=mod GOPROXY=off GOSUMDB=off GOTOOLCHAIN=local
(cd "$here" && go build -o bin/mutate ./tools/mutate && ./check list >/dev/null) || exit 2
for f in "$@"; do
  "$here"/bin/mutate list /repo "$f" | awk -v f="$f" '{print f, $1}'
done | xargs -P "$j" -L 1 "$here"/tools/mutrun.sh
