#!/usr/bin/env python3
"""Regenerates MANIFEST.json from the table below (kept next to the driver registry)."""
import json, os, sys
root = os.path.dirname(os.path.dirname(os.path.abspath(__file__)))
props = [json.loads(l) for l in open(os.path.join(root, "properties.jsonl"))]

# id -> (category, text, design_ref, note, technique)
claimed = {
 "C11": ("exploration",
         "Stateful model-based property test: generated histories over Add / Remove / Route / RemoveRoute / Handle on root pools built to collide (shared fixed prefixes, trailing-slash and variable variants, a service on '/'); after every step the history-built container and a fresh container built from the model's content answer a derived probe set through ServeHTTP and Dispatch and must agree.",
         "DESIGN.md §5 C11",
         "The model is the list of registered services/routes/patterns in registration order. Probe sets are derived from everything ever registered.",
         "stateful property-based testing (rapid): history-built vs fresh-built differential"),
 "C10": ("fault_enumeration",
         "For every generated chain configuration every panic position is enumerated on a fresh container (each filter before/after passing control, the handler before/between/after writes, the If-condition inside route selection, the container filters and error writer on the routing-error path), crossed with generated recovery mode, encoding, provider, entry point and router; afterwards a normal request, a generated tail of further panicking/normal requests, the compressor ledger and an Add+Remove probe decide whether the container is still usable.",
         "DESIGN.md §5 C10",
         "Positions are exhaustive per configuration, configurations are sampled. 'No lock left held' is observed through a 10 s watchdog whose verdict is a goroutine parked in RWMutex.Lock.",
         "fault-position enumeration inside a property-based test (rapid), twin container, instrumented provider"),
 "C06": ("exploration",
         "Model-based property test over configurations and histories: generated filters with behaviours (pass, attribute, replaced pair, adapted http middleware replacing request/writer, short-circuit, panic) on three levels, histories of routed / unroutable / HandleWithFilter requests; per request the ordered ids of the elements that ran must equal the model and each element must have received exactly what its predecessor passed on (pointer identity of Request, Response, http.Request, ResponseWriter; attributes). A generated parking schedule holds one request inside a container filter while another is served; a race-build part issues the multiset from 2-16 goroutines.",
         "DESIGN.md §5 C06",
         "Concurrent interleavings are sampled + race detector; only the parking schedule is owned by the harness.",
         "stateful property-based testing (rapid) with an event-log model, harness-owned pause points, race detector"),
 "C07": ("exploration",
         "Property-based test over response scenarios: provider, container/route encoding switches, entry point and target (route, routing error, Handle, HandleWithFilter, nested container), Accept-Encoding values, a preset Content-Encoding, chunked payloads written by filter, handler, error writer and recover handler with a panic after k chunks. A coded response must be labelled gzip/deflate exactly once, be covered by Accept-Encoding and the effective switch, and decode completely (single stream, trailer, no trailing bytes) to the bytes written; an uncoded one must be byte-identical; the ledger provider must hold nothing afterwards.",
         "DESIGN.md §5 C07",
         "Only-if reading (nothing obliges the container to encode). Open finding D5 (ServeHTTP ignores the route override) is excluded by signature.",
         "property-based testing (rapid): scenario generation, decode round trip, instrumented provider"),
 "C16": ("exploration",
         "Property-based round trip over histories: generated values are written with the JSON/XML entity writers and read back through ReadEntity under four Content-Type spellings, optional gzip (1-3 members) / deflate coding and four compressor providers, interleaved with truncated, bit-flipped, garbage and cut bodies; well-formed bodies must read back equal wherever they sit, broken ones must not panic, and an instrumented provider checks the acquire/release ledger after every request.",
         "DESIGN.md §5 C16",
         "Values in the codecs' common domain. Damage that leaves the entity's own bytes intact cannot be required to fail. Open finding D15 (undetected bit flip) is excluded by signature.",
         "property-based testing (rapid): round trip + stateful history + fault injection into bodies"),
 "C15": ("exploration",
         "Property-based test over call sequences and fault positions: generated sequences of the Response's writing calls run in a dispatched route onto a counting writer that fails from a drawn byte position on with partial acceptance (or under gzip/deflate); a trailing filter's StatusCode()/ContentLength() must equal what the underlying writer received/accepted, and every call during which the writer failed must return that error.",
         "DESIGN.md §5 C15",
         "Trusts the counting writer double. Under a coding only non-failing writers are used (the statement limits the failure clause to the uncoded case).",
         "property-based testing (rapid) with fault injection at generated byte positions"),
 "C08": ("exploration",
         "Property-based test of the CORS origin boundary: configurations and Origin strings are generated as near misses of allowed entries (case variants, proper prefixes/suffixes, superstrings, scheme swaps, null); allowed(origin) is restated from the statement; a not-allowed or absent origin must leave the complete response identical to a twin container without the filter, an allowed one gets the origin echoed verbatim once and credentials only if configured.",
         "DESIGN.md §5 C08",
         "ASCII origins; the domain predicate is modelled case-insensitive. Twin-container comparison trusts the recording harness.",
         "property-based testing (rapid): near-miss generation, reference predicate, twin container"),
 "C09": ("exploration",
         "Property-based test of preflight handling on sequences: 1-10 requests (70% preflights) to different URLs run on one filter value; each preflight is judged against its own URL (allowed methods configured or measured by probing a twin), must be answered by the filter alone and granted iff method and every requested header are allowed; other requests must equal the twin plus each actual-request header exactly once.",
         "DESIGN.md §5 C09",
         "Upper-case methods only; route tables in the common fragment. Routable sets are observed by probing.",
         "property-based testing (rapid): request sequences, reference decision table, probe-derived method sets"),
 "C05": ("exploration",
         "Property-based test with a reference ranking: Accept headers are generated from a grammar (ranges, q-values with ties, parameters before/after q, optional spaces), the expected Content-Type is computed from the structured header by the rule of the statement, and each request is repeated 12 times as rendered and with whitespace stripped; every response must be 200 with exactly the expected type and a body that decodes with the codec it names. Three registered-writer configurations run as separate processes.",
         "DESIGN.md §5 C05",
         "The registry cannot be reset through the API, hence one process per configuration. q=0, invalid q syntax, non-SP whitespace and partial wildcards overlapping Produces are outside the grammar.",
         "property-based testing (rapid): grammar-based generation + reference ranking + metamorphic whitespace relation"),
 "C17": ("exploration",
         "Property-based test tying three computations together: for generated tables and URLs the routable method set is measured by probing the real container with every method; every 405's Allow set and the OPTIONS filter's Allow / Access-Control-Allow-Methods sets must equal it, the filter must answer OPTIONS itself and leave other methods untouched (twin container).",
         "DESIGN.md §5 C17",
         "Routability is observed, not modelled. Fragment per the statement: literal (nested) roots, literal and plain-variable route segments, no conditions.",
         "property-based testing (rapid): probe-derived oracle + twin container"),
 "C01": ("exploration",
         "Property-based test against a three-valued reference model: inside every invocation of a generated route function the request is judged against that route's own declaration (method, full path template incl. regex, affix, verb, tail, Consumes, Produces, If-conditions) and every filter's view of the selected route is compared with the route that ran. Only a definite 'no' of the model alarms, so the check cannot raise an alarm inside what the statement leaves open. Tables and requests are generated to nearly admit (siblings, near-miss mutations). Sampling, not proof.",
         "DESIGN.md §3.2, §5 C01",
         "Trusts internal/model (written from the property text and the docs, unit-free of go-restful) and the recording harness. Curated pools of literals, regexes and media types.",
         "property-based testing (rapid) with a reference model oracle"),
 "C02": ("exploration",
         "Property-based test against the staged reference rule of the statement: every generated request (hostile paths included) must not panic, must run at most one route function, and its (status, route, Allow set) must be a member of the set of outcomes the model admits; tracing on/off must agree. The model is set-valued only where the statement is silent, and the evidence reports the decisive fraction and the distribution over the eight outcome stages.",
         "DESIGN.md §3.2, §5 C02",
         "Trusts internal/model; unclean paths (empty segments, no leading slash) are checked for totality only because the two routers legitimately differ there.",
         "property-based testing (rapid) with a set-valued reference model"),
 "C03": ("exploration",
         "Two generated checks on tables restricted by construction to the statement's domain: (i) the route/root that served a request is never strictly less specific than another eligible one (reference order from the statement); (ii) metamorphic: a drawn permutation of services and routes gives the same outcome for every request.",
         "DESIGN.md §5 C03",
         "Trusts the specificity order as restated in internal/model; ties between 10+-variable roots lie outside the generator bounds (DESIGN.md).",
         "property-based testing (rapid): reference order + permutation metamorphic relation"),
 "C04": ("exploration",
         "Property-based test: for every generated request that runs a route, the handler's PathParameters() must have exactly the declared names and each value must be the URL text the reference model computes from the request path; substituting the values back reproduces the path up to the trailing slash.",
         "DESIGN.md §5 C04",
         "Trusts internal/model's template matcher; values bound to empty segments are only checked through the round trip.",
         "property-based testing (rapid) with a reference binding model and round trip"),
 "C14": ("exploration",
         "Metamorphic property-based test: p and p + '/' are sent to the same generated container with identical method, headers and body; status, invoked route, parameter map and Allow set must be equal (Dispatch and, where roots have distinct mux patterns, ServeHTTP).",
         "DESIGN.md §5 C14",
         "Compares the framework with itself; net/http redirects are skipped and counted. RouterJSR311 tail wildcards are excluded as the statement says.",
         "property-based metamorphic testing (rapid)"),
 "C18": ("exploration",
         "Differential property-based test: rapid generates route tables in the fragment both routers document and table-derived requests with near-miss mutations; each request runs on twin containers that differ only in Router(); any difference in status, invoked route, path parameters or Allow set is a violation unless it matches the recorded signature of known finding D13. Sampling, not proof: the evidence reports cases, distinct non-trivial cases, the outcome-class histogram and samples.",
         "DESIGN.md §5 C18", 
         "Trusts the harness (recording handlers, httptest recorder). A defect shared by both routers is invisible here; C01/C02 check each router against the reference model.",
         "property-based differential testing (rapid), twin containers"),
}

checks = []
for p in props:
    i = p["id"]
    if i not in claimed:
        continue
    cat, text, ref, note, tech = claimed[i]
    checks.append({
        "property_id": i,
        "quick_cmd": "./check %s quick" % i,
        "thorough_cmd": "./check %s thorough" % i,
        "evidence_file": "evidence/%s.json" % i,
        "replay_cmd_template": "./check replay {path}",
        "engine": "vcheck",
        "level_claimed": {"category": cat, "text": text, "design_ref": ref},
        "level_note": note,
        "technique": tech,
    })
na = [{"property_id": p["id"], "reason": "check not built yet (work in progress; planned per DESIGN.md §5) - not claimed until its check runs green and has been shown to detect seeded breakage"}
      for p in props if p["id"] not in claimed]
m = {
 "version": 1,
 "setup_cmd": "./setup.sh",
 "hooks": {
   "guard": "verif",
   "enable": "go test -tags verif (the driver always passes -tags verif; no hook file exists in /repo, every oracle works through the public API)",
   "baseline_off_cmd": "cd /repo && go test -vet=off -count=1 ./...",
   "source_commits": [],
   "add_only": True,
 },
 "engines": [{"name": "vcheck", "path": "cmd/vcheck", "serves_properties": [c["property_id"] for c in checks],
              "kind_free_text": "Go driver: rebuilds props.test from /repo's working tree, runs rapid (pgregory.net/rapid v1.3.0) properties per part and shard with seeds derived from VERIF_SEED, replays committed cases, merges measured statistics into evidence/<id>.json"}],
 "checks": checks,
 "notes": "Technique family: property-based testing and fuzzing. See DESIGN.md. known_findings.json lists genuine defects (open: KNOWN-FINDING lines; fixed: regression inputs).",
 "not_applicable": na,
}
json.dump(m, open(os.path.join(root, "MANIFEST.json"), "w"), indent=1)
print("claimed:", [c["property_id"] for c in checks])
