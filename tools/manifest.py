#!/usr/bin/env python3
"""Regenerates MANIFEST.json from the table below (kept next to the driver registry)."""
import json, os, sys
root = os.path.dirname(os.path.dirname(os.path.abspath(__file__)))
props = [json.loads(l) for l in open(os.path.join(root, "properties.jsonl"))]

# id -> (category, text, design_ref, note, technique)
claimed = {
 "C18": ("exploration",
         "Differential property-based test: rapid generates route tables in the fragment both routers document and table-derived requests with near-miss mutations; each request runs on twin containers that differ only in Router(); any difference in status, invoked route, path parameters or Allow set is a violation unless it matches the recorded signature of known finding D13. Sampling, not proof: the evidence reports cases, distinct non-trivial cases, the outcome-class histogram and samples.",
         "DESIGN.md §5 C18", 
         "Trusts the harness (recording handlers, httptest recorder). A defect shared by both routers is invisible here; C01/C02 check each router against the reference model.",
         "property-based differential testing (rapid), twin containers"),
}

checks = []
for p in props:
    i = p["id"]
    if i not in claimed:
        continue
    cat, text, ref, note, tech = claimed[i]
    checks.append({
        "property_id": i,
        "quick_cmd": "./check %s quick" % i,
        "thorough_cmd": "./check %s thorough" % i,
        "evidence_file": "evidence/%s.json" % i,
        "replay_cmd_template": "./check replay {path}",
        "engine": "vcheck",
        "level_claimed": {"category": cat, "text": text, "design_ref": ref},
        "level_note": note,
        "technique": tech,
    })
na = [{"property_id": p["id"], "reason": "check not built yet (work in progress; planned per DESIGN.md §5) - not claimed until its check runs green and has been shown to detect seeded breakage"}
      for p in props if p["id"] not in claimed]
m = {
 "version": 1,
 "setup_cmd": "./setup.sh",
 "hooks": {
   "guard": "verif",
   "enable": "go test -tags verif (the driver always passes -tags verif; no hook file exists in /repo, every oracle works through the public API)",
   "baseline_off_cmd": "cd /repo && go test -vet=off -count=1 ./...",
   "source_commits": [],
   "add_only": True,
 },
 "engines": [{"name": "vcheck", "path": "cmd/vcheck", "serves_properties": [c["property_id"] for c in checks],
              "kind_free_text": "Go driver: rebuilds props.test from /repo's working tree, runs rapid (pgregory.net/rapid v1.3.0) properties per part and shard with seeds derived from VERIF_SEED, replays committed cases, merges measured statistics into evidence/<id>.json"}],
 "checks": checks,
 "notes": "Technique family: property-based testing and fuzzing. See DESIGN.md. known_findings.json lists genuine defects (open: KNOWN-FINDING lines; fixed: regression inputs).",
 "not_applicable": na,
}
json.dump(m, open(os.path.join(root, "MANIFEST.json"), "w"), indent=1)
print("claimed:", [c["property_id"] for c in checks])
