package main

// registry lists, per property, the test parts the driver runs and what the evidence says
// about how cases are generated and which ones count as non-trivial.
var registry = []propCfg{
	{
		ID: "C18", Level: "exploration",
		Rule:  "rapid generates a route table in the fragment both routers document (literal roots; literal and {var} route segments; shared literal pool; ~55% of routes derived from a sibling) and 4-12 requests derived from the table plus near-miss mutations; each request is dispatched on twin containers differing only in Router(). Non-trivial: at least two routes of the table match the request path, or the outcome is an error class other than 404. Distinct: FNV-64 of the canonical JSON of the whole case.",
		Parts: []partCfg{{Test: "TestC18", Quick: 20000, Thorough: 250000}},
		Assum: []string{"differential oracle: a defect both routers share is invisible to this check (C01/C02 cover it with the reference model)", "Dispatch is only given clean paths; unclean paths go through ServeHTTP where net/http's mux normalises first"},
	},
	{
		ID: "C14", Level: "exploration",
		Rule:  "rapid generates a route table (CurlyRouter: literals, {v}, {v:re}, pre{v}suf, tail, :verb; RouterJSR311: the same without affix, verb and tail) and table-derived requests with near-miss mutations whose path p has at least one segment and no trailing slash; p and p+'/' are sent to the same container with identical method, headers and body (Dispatch; ServeHTTP too when the roots have distinct mux patterns; net/http 3xx redirects are skipped and counted). Outcomes must agree in status, invoked route, path parameter map and Allow set. Non-trivial: p is routed to a function or answered 405 (a pair of 404s is trivial). Distinct: FNV-64 of the case JSON.",
		Parts: []partCfg{{Test: "TestC14", Quick: 20000, Thorough: 250000}},
		Assum: []string{"metamorphic oracle: compares the framework with itself on two inputs, so a defect that treats p and p/ alike is invisible here (C01, C02, C04 cover it)"},
	},
	{
		ID: "C01", Level: "exploration",
		Rule:  "rapid generates a route table for a drawn router (CurlyRouter: literals, {v}, {v:re}, pre{v}suf, tail, :verb; RouterJSR311: literals, {v}, {v:re}, tail; Consumes/Produces lists, If-conditions, AllowedMethodsWithoutContentType; recording filters on container, service and route level) and 1-12 requests, 90% derived from a route of the table plus 0-2 near-miss mutations (segment edit/drop/append, verb, method, Content-Type, Accept, body, condition header), 10% free-form including hostile paths. Inside every invocation of a route function the request is judged against that route's declaration with the three-valued reference model (only a definite N alarms) and every filter's view of the selected route is compared with the route that ran. Non-trivial: a function ran although another route also matches the path, or nothing ran although some route's template matches the path. Distinct: FNV-64 of the case JSON.",
		Parts: []partCfg{{Test: "TestC01", Quick: 20000, Thorough: 200000}},
		Assum: []string{"the reference model (internal/model) restates the declaration semantics from the property text and the documentation; inputs it leaves unspecified (U) never alarm", "templates, regexes and media types come from curated pools (DESIGN.md 3.1)"},
	},
	{
		ID: "C02", Level: "exploration",
		Rule:  "same generator as C01 (hostile paths included). Every request is dispatched with trace logging off and on. Totality: no panic, at most one route function, status is the handler's or 404/405/415/406, a 405 carries Allow, tracing changes nothing. Exactness: the observed (status, route, Allow set) must be a member of the set the staged reference rule admits (best root -> path -> conditions -> method -> Content-Type -> Accept -> maximal route); unclean paths and requests with more than 12 unspecified atoms are totality-only. Non-trivial: a decisive case (singleton admissible set) whose outcome is produced after at least one earlier stage was passed (404 no-route/condition, 405, 415, 406) or a success with at least two path-matching routes. Distinct: FNV-64 of the case JSON.",
		Parts: []partCfg{{Test: "TestC02", Quick: 20000, Thorough: 200000}},
		Assum: []string{"reference model as for C01; where the two routers legitimately differ the model admits both readings", "Content-Length header and field are kept consistent, as a real server delivers them"},
	},
	{
		ID: "C03", Level: "exploration",
		Rule:  "tables as for C01, restricted by construction to the statement's domain (roots of pairwise different literal/variable shape; same-method routes that differ only in variable names removed; RouterJSR311 with literal roots only; dropped items are counted). A permutation of the services and of each service's routes is drawn with rapid.Permutation; both orders are built and sent the same requests. (i) no eligible route strictly refines the one that ran and no matching root strictly dominates the serving one; (ii) identical outcome (status, route, parameters, Allow) in both orders. Non-trivial: some request has at least two eligible routes or two matching roots and the permutation moved something. Distinct: FNV-64 of the case JSON.",
		Parts: []partCfg{{Test: "TestC03", Quick: 15000, Thorough: 150000}},
		Assum: []string{"specificity order as written in the statement (DESIGN.md 3.2 step 2 and 8); incomparable templates are not ranked"},
	},
	{
		ID: "C04", Level: "exploration",
		Rule:  "tables and requests as for C01 without hostile paths. For every request that ran a route function the parameter map seen by the handler is compared with the bindings the reference model computes from the request path: exactly the declared names of root and route template, each plain/regex/affix variable equal to the URL segment at its position minus affix and verb, a tail equal to the remaining segments joined by '/', and substitution into the full template reproduces the path up to the trailing slash. Non-trivial: the invoked template has at least two variables, a root variable plus a route variable, or a verb/affix/tail. Distinct: FNV-64 of the case JSON.",
		Parts: []partCfg{{Test: "TestC04", Quick: 20000, Thorough: 200000}},
		Assum: []string{"values bound to empty segments and the trailing slash of a tail value are not pinned down by the statement and only checked through the round trip"},
	},
	{
		ID: "C17", Level: "exploration",
		Rule:  "rapid generates a table in the fragment both matching engines support (literal, possibly nested roots; literal and {var} route segments; no If-conditions) and 1-6 table-derived clean URLs (with and without one trailing slash). For each URL one bodiless, header-less probe per method (GET POST PUT PATCH DELETE HEAD OPTIONS FOO get plus every method in the table) is dispatched on a container without the OPTIONS filter: routable = methods not answered 404/405. Every 405 must carry Allow == routable (as sets); a twin container with Container.OPTIONSFilter must answer OPTIONS without running a route, with Allow and Access-Control-Allow-Methods == routable (OPTIONS itself not compared), and must leave every other method's outcome unchanged. Non-trivial: at least two methods are routable at the URL. Distinct: FNV-64 of the case JSON.",
		Parts: []partCfg{{Test: "TestC17", Quick: 6000, Thorough: 60000}},
		Assum: []string{"routability is observed by probing the real container, not taken from the model", "failures matching the signature of D12 (more than one root matches; extra methods come from the less specific service) are counted as excluded while D12 is open"},
	},
	{
		ID: "C05", Level: "exploration",
		Rule: "per registered-writer configuration (three processes: built-in JSON+XML; plus two vendor types; plus a key that contains another key as a substring) rapid draws a non-empty Produces list over registered types (order matters), DefaultResponseContentType in {unset, JSON, XML}, the pretty-print flag, the entry point, and an Accept header from a grammar: 0-6 ranges, each a Produces member, */*, another registered type or a foreign type (text/html, image/*), q in {absent,1,1.0,0.9,0.8,0.5,0.50,0.1,0.001} with deliberate ties, parameters before/after q, 0-2 spaces around , ; and =. The expected Content-Type is computed by a reference ranking (greater q first, header order on ties, */* = first Produces entry, no header = */*); the request is repeated 12 times with the header as rendered and with all optional whitespace stripped: every response must be 200, carry exactly the expected type and decode with the codec it names to the written value. Headers that admit no produced type are outside the statement's domain (counted). Non-trivial: at least two produced types and the header overrides Produces order, or whitespace/parameters sit next to a q-value. Distinct: FNV-64 of the case JSON.",
		Parts: []partCfg{
			{Test: "TestC05", Quick: 15000, Thorough: 150000, Shards: 5, Env: []string{"VERIF_REGISTRY=a"}},
			{Test: "TestC05", Quick: 15000, Thorough: 150000, Shards: 5, Env: []string{"VERIF_REGISTRY=b"}},
			{Test: "TestC05", Quick: 15000, Thorough: 150000, Shards: 6, Env: []string{"VERIF_REGISTRY=c"}},
		},
		Assum: []string{"q=0 ranges, invalid q syntax, non-SP whitespace and partial wildcards overlapping Produces are outside the grammar (unspecified by the statement)", "determinism is sampled: 12 repetitions per header"},
	},
	{
		ID: "C08", Level: "exploration",
		Rule:  "rapid draws a CORS configuration (0-4 AllowedDomains from an origin pool, optionally the .* wildcard entry; optional AllowedDomainFunc = case-insensitive membership in a second set; CookiesAllowed; ExposeHeaders; MaxAge; AllowedMethods configured or computed; AllowedHeaders list, wildcard or none), a small route table and 1-10 requests (35% OPTIONS preflights) whose Origin is absent or derived from an allowed entry: identity, case variant, proper prefix, proper suffix, superstring (suffix/prefix appended), scheme swap, 'null', pool or arbitrary ASCII string. Oracle: allowed(origin) restated from the statement; not allowed or absent: no Access-Control-* header at all and status, all headers, body, handler and filter log equal a twin container without the filter; allowed: Allow-Origin, if present, is the origin verbatim exactly once and Allow-Credentials only if configured. Non-trivial: some request's Origin is a case variant or near miss (substring/superstring/scheme variant) of a configured entry. Distinct: FNV-64 of the case JSON.",
		Parts: []partCfg{{Test: "TestC08", Quick: 20000, Thorough: 250000}},
		Assum: []string{"origins are ASCII (case folding of non-ASCII origins is not pinned down by the statement)", "the predicate is case-insensitive because the code hands it the lower-cased origin in one branch and the raw one in the other"},
	},
	{
		ID: "C09", Level: "exploration",
		Rule:  "same configuration generator as C08, 70% of the 1-10 requests are OPTIONS preflights to table-derived URLs on ONE filter value: requested method from the configured list, the target route or the pool; 0-5 requested headers in any case with optional spaces. Oracle per element, judged against its own URL: a preflight from an allowed origin runs no later filter, no route, no error writer (200, empty body, empty event log); it is granted (Allow-Origin once, Allow-Methods == allowed set, Allow-Headers present) iff the method is allowed (configured list, else the set routable at that URL measured by probing a twin) and every requested header is allowed ignoring case or the wildcard is configured; otherwise no Access-Control-* header. Any other request from an allowed origin equals the twin's response plus each actual-request header exactly once. Non-trivial: a preflight refused for exactly one reason (one offending header, or only the method), or a sequence whose computed routable sets differ between URLs. Distinct: FNV-64 of the case JSON.",
		Parts: []partCfg{{Test: "TestC09", Quick: 15000, Thorough: 200000}},
		Assum: []string{"requested and configured methods are upper case (the statement does not say how case is treated)", "route tables in the fragment both matching engines support, as for C17"},
	},
	{
		ID: "C15", Level: "exploration",
		Rule:  "rapid draws a call sequence on the Response that respects the precondition (status set at most once, before any body byte): optionally one of WriteHeader, WriteEntity, WriteHeaderAndEntity, WriteAsJson, WriteAsXml, WriteJson, WriteHeaderAndJson, WriteHeaderAndXml, WriteError, WriteErrorString, WriteServiceError (nil values, payload sizes 0..5000, both pretty-print settings, Produces/Accept combinations including ones with no registered writer), then 0-8 raw Writes of 0..70000 bytes. The sequence runs in a route function dispatched through a container onto a counting http.ResponseWriter that starts failing at a drawn per-mille position of the total output (partial acceptance), or under gzip/deflate with a non-failing writer. A trailing container filter reads StatusCode()/ContentLength() after the chain returned: they must equal the status the underlying writer received (200 if none) and the accepted byte count (decoded length under a coding); without coding every call during which the underlying writer failed must return that very error and Write's n must equal what was accepted. Non-trivial: the failure position lies strictly inside the output, a coding sits underneath, or a multi-write entity (pretty XML) is written. Distinct: FNV-64 of the case JSON.",
		Parts: []partCfg{{Test: "TestC15", Quick: 20000, Thorough: 150000}},
		Assum: []string{"with a coding underneath only a non-failing writer is used: the statement restricts the failure clause to the uncoded case", "an error that is not a write failure (e.g. a value the codec cannot marshal) is outside the statement"},
	},
	{
		ID: "C16", Level: "exploration",
		Rule:  "rapid draws a provider (sync.Pool, bounded cache of 0, 1, 4) and a history of 1-12 requests; each writes a generated value (int64/uint64 with extremes and >2^53, finite float64, bool, unicode / XML-legal strings incl. non-BMP, nested struct, []string, []int64, pointer fields, interface{} holding a 64-bit integer and map[string]string for JSON) with the JSON or XML entity writer selected by Accept (both pretty settings), then feeds the bytes back as a request body with Content-Type spelled T, 'T; charset=utf-8', 'T ;charset=UTF-8' or absent with DefaultRequestContentType(T), optionally gzip (1-3 members) or deflate encoded with the matching Content-Encoding, and reads it with ReadEntity in an echo route. 40% of the bodies are damaged: truncated inside the header / stream / trailer, one bit flipped, garbage, or a cut document. Oracle: a well-formed body, wherever it sits in the history, reads back equal (64-bit integers exactly, interface integers as the same number, empty == nil slices); a damaged one never panics, must return an error when the header is cut or the body is garbage, and otherwise either returns an error or the original value; after every request the ledger provider holds nothing and saw no double/unknown release, no hand-out of a held object, no use after release. Non-trivial: a well-formed compressed body directly after a broken one, or a value with a >2^53 integer or non-BMP string. Distinct: FNV-64 of the case JSON.",
		Parts: []partCfg{{Test: "TestC16", Quick: 4000, Thorough: 40000}},
		Assum: []string{"values are restricted to the codecs' common domain (finite floats, valid UTF-8, XML-legal characters, no interface/map fields under XML)", "damage that leaves the entity's own bytes intact (cut checksum, don't-care header bits) may go unnoticed: the statement cannot be decided there", "failures matching the signature of open finding D15 are counted as excluded"},
	},
}
