package main

// registry lists, per property, the test parts the driver runs and what the evidence says
// about how cases are generated and which ones count as non-trivial.
var registry = []propCfg{
	{
		ID: "C18", Level: "exploration",
		Rule: "rapid generates a route table in the fragment both routers document (literal roots; literal and {var} route segments; shared literal pool; ~55% of routes derived from a sibling) and 4-12 requests derived from the table plus near-miss mutations; each request is dispatched on twin containers differing only in Router(). Non-trivial: at least two routes of the table match the request path, or the outcome is an error class other than 404. Distinct: FNV-64 of the canonical JSON of the whole case.",
		Parts: []partCfg{{Test: "TestC18", Quick: 20000, Thorough: 250000}},
		Assum: []string{"differential oracle: a defect both routers share is invisible to this check (C01/C02 cover it with the reference model)", "Dispatch is only given clean paths; unclean paths go through ServeHTTP where net/http's mux normalises first"},
	},
}
