// vcheck is the driver behind ./check: it rebuilds the property test binary from the
// current /repo tree, runs the registered parts of one property (sharded in the thorough
// tier), replays committed cases, merges the statistics into evidence/<id>.json and turns
// failures into "VIOLATION property=<id> replay=<path>" lines.
//
//	vcheck <id> quick|thorough
//	vcheck replay <path>
//	vcheck list
//
// Exit codes: 0 held on everything explored, 1 violation, 2 infrastructure / inconclusive.
package main

import (
	"bufio"
	"bytes"
	"crypto/sha256"
	"encoding/binary"
	"encoding/hex"
	"encoding/json"
	"fmt"
	"os"
	"os/exec"
	"path/filepath"
	"regexp"
	"sort"
	"strconv"
	"strings"
	"sync"
	"time"
)

type partCfg struct {
	Test     string   // test function
	Race     bool     // needs the -race build
	Quick    int      // rapid checks, quick tier
	Thorough int      // rapid checks per shard, thorough tier
	Shards   int      // thorough shards (default 16)
	Env      []string // extra environment
	Plain    bool     // not a rapid property: run once (no -rapid flags), case count comes from the stats
}

type fuzzCfg struct {
	Target  string
	Seconds int
	Env     []string
}

type propCfg struct {
	ID    string
	Level string
	Rule  string
	Parts []partCfg
	Fuzz  []fuzzCfg
	Assum []string
}

var root string

func main() {
	var err error
	root, err = os.Getwd()
	if err != nil {
		fatal(2, "getwd: %v", err)
	}
	if r := os.Getenv("VERIF_ROOT"); r != "" {
		root = r
	}
	if len(os.Args) < 2 {
		fatal(2, "usage: vcheck <id> quick|thorough | replay <path> | list")
	}
	setEnv()
	switch os.Args[1] {
	case "list":
		for _, p := range registry {
			fmt.Println(p.ID)
		}
	case "replay":
		if len(os.Args) < 3 {
			fatal(2, "usage: vcheck replay <path>")
		}
		os.Exit(doReplay(os.Args[2]))
	default:
		tier := "quick"
		if len(os.Args) > 2 {
			tier = os.Args[2]
		}
		if t := os.Getenv("VERIF_TIER"); t != "" && len(os.Args) <= 2 {
			tier = t
		}
		if tier != "quick" && tier != "thorough" {
			fatal(2, "unknown tier %q", tier)
		}
		for _, p := range registry {
			if p.ID == os.Args[1] {
				os.Exit(runProperty(p, tier))
			}
		}
		fatal(2, "unknown property %q", os.Args[1])
	}
}

func fatal(code int, f string, a ...interface{}) {
	fmt.Fprintf(os.Stderr, "vcheck: "+f+"\n", a...)
	os.Exit(code)
}

func setEnv() {
	os.Setenv("GOFLAGS", "-mod=mod")
	os.Setenv("GOPROXY", "off")
	os.Setenv("GOSUMDB", "off")
	os.Setenv("GOTOOLCHAIN", "local")
	os.Setenv("GORACE", "halt_on_error=1")
}

func seed() int64 {
	if v := os.Getenv("VERIF_SEED"); v != "" {
		if n, err := strconv.ParseInt(v, 10, 64); err == nil {
			return n
		}
	}
	return 1
}

func splitmix(x uint64) uint64 {
	x += 0x9e3779b97f4a7c15
	x = (x ^ (x >> 30)) * 0xbf58476d1ce4e5b9
	x = (x ^ (x >> 27)) * 0x94d049bb133111eb
	return x ^ (x >> 31)
}

func rapidSeed(base int64, part, shard int) uint64 {
	s := splitmix(uint64(base)*1000003 + uint64(part)*1009 + uint64(shard))
	if s == 0 {
		s = 1
	}
	return s >> 1 // keep it positive for every flag parser
}

// modfile: the test binary is built against VERIF_REPO (default /repo). MANIFEST commands
// never set VERIF_REPO; it exists for the sensitivity self-test on scratch copies.
func buildArgs() []string {
	repo := os.Getenv("VERIF_REPO")
	if repo == "" || repo == "/repo" {
		return nil
	}
	b, err := os.ReadFile(filepath.Join(root, "go.mod"))
	if err != nil {
		fatal(2, "read go.mod: %v", err)
	}
	alt := strings.Replace(string(b), "=> /repo", "=> "+repo, 1)
	dir := filepath.Join(root, ".build")
	os.MkdirAll(dir, 0o755)
	sum := sha256.Sum256([]byte(repo))
	mf := filepath.Join(dir, "alt-"+hex.EncodeToString(sum[:4])+".mod")
	os.WriteFile(mf, []byte(alt), 0o644)
	os.WriteFile(strings.TrimSuffix(mf, ".mod")+".sum", nil, 0o644)
	return []string{"-modfile=" + mf}
}

func buildTags() []string {
	return []string{"-tags", "verif"}
}

func binName(race bool) string {
	name := "props"
	if repo := os.Getenv("VERIF_REPO"); repo != "" && repo != "/repo" {
		sum := sha256.Sum256([]byte(repo))
		name += "-" + hex.EncodeToString(sum[:4])
	}
	if race {
		name += ".race"
	}
	return filepath.Join(root, ".build", name+".test")
}

var buildMu sync.Mutex

func build(race bool) (string, error) {
	buildMu.Lock()
	defer buildMu.Unlock()
	out := binName(race)
	os.MkdirAll(filepath.Dir(out), 0o755)
	args := []string{"test", "-c", "-vet=off"}
	args = append(args, buildArgs()...)
	args = append(args, buildTags()...)
	if race {
		args = append(args, "-race")
	}
	args = append(args, "-o", out, "./props")
	cmd := exec.Command("go", args...)
	cmd.Dir = root
	var buf bytes.Buffer
	cmd.Stdout, cmd.Stderr = &buf, &buf
	if err := cmd.Run(); err != nil {
		return "", fmt.Errorf("go %s: %v\n%s", strings.Join(args, " "), err, buf.String())
	}
	return out, nil
}

type runResult struct {
	part, shard int
	exit        int
	timedOut    bool
	out         string
	passed      int
	foundFile   string
	statsPrefix string
	log         string
}

// stoppedEarly is runTest's exit code for a part that was ended because the verdict was settled.
const stoppedEarly = -77

var passedRe = regexp.MustCompile(`\[rapid\] OK, passed (\d+) tests`)

// stopParts is closed when one part of the property has reported a violation: the verdict is
// settled (exit 1), parts that are still running (possibly wedged by the same defect) are ended.
var (
	stopParts     = make(chan struct{})
	stopPartsOnce sync.Once
)

func runTest(bin string, args []string, env []string, timeout time.Duration, logPath string) (int, bool, string) {
	cmd := exec.Command(bin, args...)
	cmd.Dir = filepath.Join(root, "props")
	cmd.Env = append(os.Environ(), env...)
	var buf bytes.Buffer
	cmd.Stdout, cmd.Stderr = &buf, &buf
	if err := cmd.Start(); err != nil {
		return 2, false, err.Error()
	}
	done := make(chan error, 1)
	go func() { done <- cmd.Wait() }()
	timedOut := false
	var err error
	stopped := false
	select {
	case err = <-done:
	case <-time.After(timeout):
		timedOut = true
		cmd.Process.Kill()
		err = <-done
	case <-stopParts:
		// give it a moment to finish by itself (and write its statistics), then end it
		select {
		case err = <-done:
		case <-time.After(20 * time.Second):
			stopped = true
			cmd.Process.Kill()
			<-done
		}
	}
	if stopped {
		buf.WriteString("\nvcheck: ended early, another part of this property had already reported a violation\n")
	}
	os.MkdirAll(filepath.Dir(logPath), 0o755)
	os.WriteFile(logPath, buf.Bytes(), 0o644)
	code := 0
	if err != nil {
		code = 1
		if ee, ok := err.(*exec.ExitError); ok {
			code = ee.ExitCode()
		}
	}
	if stopped {
		return stoppedEarly, false, buf.String()
	}
	return code, timedOut, buf.String()
}

// scaled: VERIF_SCALE shrinks the quick case counts; only tools/mutrun.sh sets it (first
// pass of the syntactic-mutant sweep; survivors are re-run at full size).
func scaled(n int) int {
	f, err := strconv.ParseFloat(os.Getenv("VERIF_SCALE"), 64)
	if err != nil || f <= 0 || f >= 1 {
		return n
	}
	if m := int(float64(n) * f); m >= 20 {
		return m
	}
	return 20
}

func knownPath() string { return filepath.Join(root, "known_findings.json") }

func runProperty(p propCfg, tier string) int {
	start := time.Now()
	base := seed()
	needRace, needPlain := false, false
	for _, pt := range p.Parts {
		if pt.Race {
			needRace = true
		} else {
			needPlain = true
		}
	}
	bins := map[bool]string{}
	needPlain = true // replay always uses the plain build
	if needPlain {
		b, err := build(false)
		if err != nil {
			fatal(2, "build failed: %v", err)
		}
		bins[false] = b
	}
	if needRace {
		b, err := build(true)
		if err != nil {
			fatal(2, "race build failed: %v", err)
		}
		bins[true] = b
	}
	os.RemoveAll(filepath.Join(root, "props", "testdata", "rapid"))
	work := filepath.Join(root, ".build", "run", fmt.Sprintf("%s-%s-%d", p.ID, tier, os.Getpid()))
	logTag := ""
	if altRepo() {
		logTag = fmt.Sprintf("alt%d.", os.Getpid())
	}
	os.RemoveAll(work)
	os.MkdirAll(work, 0o755)
	defer os.RemoveAll(work)
	logDir := filepath.Join(root, ".build", "logs")
	if logTag != "" {
		logDir = filepath.Join(logDir, logTag)
	}

	violations := 0
	infra := 0
	var knownLines []string
	var violationLines []string

	// 1. replay committed cases (witnesses of known findings, regression inputs)
	replayed := 0
	replayDir := filepath.Join(root, "replay", p.ID)
	if fi, err := os.Stat(replayDir); err == nil && fi.IsDir() {
		// once per distinct part environment (e.g. the registered-writer configurations of C05)
		var envs [][]string
		seenEnv := map[string]bool{}
		for _, pt := range p.Parts {
			k := strings.Join(pt.Env, " ")
			if !seenEnv[k] {
				seenEnv[k] = true
				envs = append(envs, pt.Env)
			}
		}
		seenLine := map[string]bool{}
		for ei, penv := range envs {
			logPath := filepath.Join(logDir, fmt.Sprintf("%s.replay%d.log", p.ID, ei))
			env := append([]string{"VERIF_REPLAY_DIR=" + replayDir, "VERIF_KNOWN=" + knownPath(), "VERIF_TIER=" + tier}, penv...)
			// committed cases of properties with a race-build part are replayed under the race detector
			code, to, out := runTest(bins[needRace], []string{"-test.run", "^TestReplay$", "-test.v", "-test.timeout", "10m"}, env, 11*time.Minute, logPath)
			if strings.Contains(out, "WARNING: DATA RACE") {
				violations++
				last := replayDir
				for _, l := range strings.Split(out, "\n") {
					if strings.HasPrefix(l, "REPLAYING file=") {
						last = strings.TrimPrefix(l, "REPLAYING file=")
					}
				}
				violationLines = append(violationLines, fmt.Sprintf("VIOLATION property=%s replay=%s", p.ID, last))
				fmt.Fprintf(os.Stderr, "vcheck: data race while replaying %s; log %s\n%s\n", replayDir, logPath, tailOf(out, 60))
				continue
			}
			sc := bufio.NewScanner(strings.NewReader(out))
			sc.Buffer(make([]byte, 1<<20), 1<<24)
			nv := 0
			for sc.Scan() {
				line := sc.Text()
				if seenLine[line] {
					continue
				}
				switch {
				case strings.HasPrefix(line, "KNOWN-FINDING:"):
					seenLine[line] = true
					knownLines = append(knownLines, line)
				case strings.HasPrefix(line, "REPLAY-VIOLATION"):
					seenLine[line] = true
					violations++
					nv++
					f := field(line, "file")
					violationLines = append(violationLines, fmt.Sprintf("VIOLATION property=%s replay=%s", p.ID, f))
					fmt.Fprintln(os.Stderr, line)
				case strings.HasPrefix(line, "NOTE:"):
					seenLine[line] = true
					fmt.Fprintln(os.Stderr, line)
				}
			}
			if to || (code != 0 && nv == 0) {
				fmt.Fprintf(os.Stderr, "vcheck: replay run failed (exit %d, timeout=%v); see %s\n", code, to, logPath)
				infra++
			}
		}
		files, _ := filepath.Glob(filepath.Join(replayDir, "*.json"))
		replayed = len(files)
	}

	// 2. generated search
	type job struct {
		part, shard int
		cfg         partCfg
		checks      int
	}
	var jobs []job
	for i, pt := range p.Parts {
		if tier == "quick" {
			jobs = append(jobs, job{i, 0, pt, scaled(pt.Quick)})
		} else {
			n := pt.Shards
			if n == 0 {
				n = 16
			}
			for s := 0; s < n; s++ {
				jobs = append(jobs, job{i, s, pt, pt.Thorough})
			}
		}
	}
	par := 16
	if tier == "quick" {
		par = 4
	}
	results := make([]runResult, len(jobs))
	sem := make(chan struct{}, par)
	var wg sync.WaitGroup
	for ji, j := range jobs {
		wg.Add(1)
		go func(ji int, j job) {
			defer wg.Done()
			sem <- struct{}{}
			defer func() { <-sem }()
			tag := fmt.Sprintf("%s.p%d.s%d", p.ID, j.part, j.shard)
			select {
			case <-stopParts:
				results[ji] = runResult{part: j.part, shard: j.shard, exit: stoppedEarly, log: "(not started)"}
				return
			default:
			}
			foundDir := filepath.Join(work, "found."+tag)
			statsPrefix := filepath.Join(work, "stats."+tag)
			timeout := 8 * time.Minute // quick parts take under a minute; a wedged one is inconclusive
			if tier == "thorough" {
				timeout = 90 * time.Minute
			}
			args := []string{"-test.run", "^" + j.cfg.Test + "$", "-test.v", "-test.timeout", (timeout - time.Minute).String()}
			if !j.cfg.Plain {
				shrink := "10s"
				if tier == "thorough" {
					shrink = "30s"
				}
				args = append(args,
					"-rapid.checks", strconv.Itoa(j.checks),
					"-rapid.seed", strconv.FormatUint(rapidSeed(base, j.part, j.shard), 10),
					"-rapid.nofailfile", "-rapid.shrinktime", shrink)
			}
			env := []string{
				"VERIF_STATS_OUT=" + statsPrefix, "VERIF_FOUND_DIR=" + foundDir, "VERIF_TIER=" + tier,
				"VERIF_KNOWN=" + knownPath(), "VERIF_CHECKS=" + strconv.Itoa(j.checks),
				"VERIF_SHARD_SEED=" + strconv.FormatUint(rapidSeed(base, j.part, j.shard), 10),
			}
			env = append(env, j.cfg.Env...)
			if j.cfg.Race && tier == "thorough" {
				// diversify the schedules of the concurrent parts: shards differ in GOMAXPROCS
				env = append(env, "GOMAXPROCS="+strconv.Itoa([]int{16, 2, 4, 8}[j.shard%4]))
			}
			logPath := filepath.Join(logDir, tag+".log")
			code, to, out := runTest(bins[j.cfg.Race], args, env, timeout, logPath)
			r := runResult{part: j.part, shard: j.shard, exit: code, timedOut: to, out: out, statsPrefix: statsPrefix, log: logPath}
			if m := passedRe.FindStringSubmatch(out); m != nil {
				r.passed, _ = strconv.Atoi(m[1])
			}
			if _, err := os.Stat(filepath.Join(foundDir, "last.json")); err == nil {
				r.foundFile = filepath.Join(foundDir, "last.json")
			}
			if r.foundFile != "" || (code != 0 && code != stoppedEarly && strings.Contains(out, "WARNING: DATA RACE")) {
				stopPartsOnce.Do(func() { close(stopParts) })
			}
			results[ji] = r
		}(ji, j)
	}
	wg.Wait()

	shortfall := 0
	for i, r := range results {
		j := jobs[i]
		switch {
		case r.foundFile != "":
			violations++
			dst := keepFound(p.ID, r.foundFile)
			violationLines = append(violationLines, fmt.Sprintf("VIOLATION property=%s replay=%s", p.ID, dst))
			fmt.Fprintf(os.Stderr, "vcheck: %s part %s shard %d failed; log %s\n%s\n", p.ID, j.cfg.Test, r.shard, r.log, tailOf(r.out, 25))
		case r.exit == stoppedEarly:
			fmt.Fprintf(os.Stderr, "vcheck: %s part %s shard %d ended early (verdict settled by another part); log %s\n", p.ID, j.cfg.Test, r.shard, r.log)
		case r.timedOut:
			infra++
			fmt.Fprintf(os.Stderr, "vcheck: %s part %s shard %d timed out (inconclusive); log %s\n", p.ID, j.cfg.Test, r.shard, r.log)
		case r.exit != 0:
			if strings.Contains(r.out, "WARNING: DATA RACE") {
				// the race detector stopped the process: the running case was saved before it started
				violations++
				dst := keepRace(p.ID, work, r)
				violationLines = append(violationLines, fmt.Sprintf("VIOLATION property=%s replay=%s", p.ID, dst))
				fmt.Fprintf(os.Stderr, "vcheck: %s part %s shard %d: data race reported; log %s\n%s\n", p.ID, j.cfg.Test, r.shard, r.log, tailOf(r.out, 60))
			} else {
				infra++
				fmt.Fprintf(os.Stderr, "vcheck: %s part %s shard %d exited %d without a saved case (infrastructure); log %s\n%s\n", p.ID, j.cfg.Test, r.shard, r.exit, r.log, tailOf(r.out, 40))
			}
		default:
			if !j.cfg.Plain && r.passed < j.checks {
				shortfall += j.checks - r.passed
			}
		}
	}

	// 2b. native fuzz campaigns (thorough tier only; cannot be seeded - the saved input is the reproducible unit)
	var fuzzRuns []map[string]interface{}
	if tier == "thorough" && violations == 0 {
		for _, fz := range p.Fuzz {
			fr, viol, bad := runFuzz(p, fz, work, logDir)
			fuzzRuns = append(fuzzRuns, fr)
			if viol != "" {
				violations++
				violationLines = append(violationLines, fmt.Sprintf("VIOLATION property=%s replay=%s", p.ID, viol))
			}
			if bad {
				infra++
			}
		}
	}

	// 3. evidence
	ev := mergeEvidence(p, tier, base, work, len(jobs), replayed, violations, shortfall, time.Since(start))
	if len(fuzzRuns) > 0 {
		cov := ev["coverage"].(map[string]interface{})
		cov["native_fuzz"] = fuzzRuns
		var execs int64
		for _, fr := range fuzzRuns {
			execs += fr["execs"].(int64)
		}
		cov["evaluations"] = cov["evaluations"].(int64) + execs
	}
	if err := writeEvidence(p.ID, ev); err != nil {
		fmt.Fprintf(os.Stderr, "vcheck: evidence: %v\n", err)
		infra++
	}

	for _, l := range knownLines {
		fmt.Println(l)
	}
	for _, l := range violationLines {
		fmt.Println(l)
	}
	cov := ev["coverage"].(map[string]interface{})
	if lh, ok := cov["label_histogram"].(map[string]map[string]int64); ok {
		for part, ls := range lh {
			if n := ls["inconclusive_watchdog"]; n > 0 {
				fmt.Fprintf(os.Stderr, "vcheck: %s part %s: %d watchdog expiries without a verdict (inconclusive)\n", p.ID, part, n)
				infra++
			}
		}
	}
	fmt.Printf("%s %s seed=%d: evaluations=%v distinct_nontrivial=%v violations=%d known=%d wall=%.1fs\n",
		p.ID, tier, base, cov["evaluations"], cov["distinct_nontrivial"], violations, len(knownLines), time.Since(start).Seconds())
	if violations > 0 {
		return 1
	}
	if infra > 0 {
		return 2
	}
	return 0
}

func field(line, key string) string {
	for _, f := range strings.Fields(line) {
		if strings.HasPrefix(f, key+"=") {
			return strings.TrimPrefix(f, key+"=")
		}
	}
	return ""
}

func tailOf(s string, n int) string {
	lines := strings.Split(strings.TrimRight(s, "\n"), "\n")
	var keep []string
	for _, l := range lines {
		if strings.Contains(l, "[rapid] draw") {
			continue
		}
		keep = append(keep, l)
	}
	if len(keep) > n {
		keep = keep[len(keep)-n:]
	}
	return strings.Join(keep, "\n")
}

func keepFound(id, src string) string {
	b, err := os.ReadFile(src)
	if err != nil {
		return src
	}
	sum := sha256.Sum256(b)
	dir := filepath.Join(root, "found", id)
	if altRepo() {
		dir = filepath.Join(root, ".build", "found-alt", id)
	}
	os.MkdirAll(dir, 0o755)
	dst := filepath.Join(dir, hex.EncodeToString(sum[:6])+".json")
	os.WriteFile(dst, b, 0o644)
	return dst
}

// keepRace stores the case that was running when the race detector fired (written by the
// property before it starts the goroutines) together with the report.
func keepRace(id, work string, r runResult) string {
	tag := fmt.Sprintf("%s.p%d.s%d", id, r.part, r.shard)
	running := filepath.Join(work, "found."+tag, "running.json")
	dir := filepath.Join(root, "found", id)
	if altRepo() {
		dir = filepath.Join(root, ".build", "found-alt", id)
	}
	os.MkdirAll(dir, 0o755)
	b, err := os.ReadFile(running)
	if err != nil {
		b = []byte(`{"property":"` + id + `","part":"","case":null}`)
	}
	sum := sha256.Sum256(append(b, []byte(r.out)...))
	dst := filepath.Join(dir, "race-"+hex.EncodeToString(sum[:6])+".json")
	os.WriteFile(dst, b, 0o644)
	os.WriteFile(strings.TrimSuffix(dst, ".json")+".log", []byte(tailOf(r.out, 200)), 0o644)
	return dst
}

type dump struct {
	Property    string            `json:"property"`
	Part        string            `json:"part"`
	Evaluations int64             `json:"evaluations"`
	Nontrivial  int64             `json:"nontrivial"`
	Labels      map[string]int64  `json:"labels"`
	Excluded    map[string]int64  `json:"excluded_known"`
	Samples     []json.RawMessage `json:"samples"`
	Notes       []string          `json:"notes"`
	HashFile    string            `json:"hash_file"`
}

func mergeEvidence(p propCfg, tier string, base int64, work string, njobs, replayed, violations, shortfall int, wall time.Duration) map[string]interface{} {
	files, _ := filepath.Glob(filepath.Join(work, "stats.*.json"))
	sort.Strings(files)
	var evals, nontriv int64
	labels := map[string]map[string]int64{}
	excluded := map[string]int64{}
	hashes := map[uint64]struct{}{}
	var samples []interface{}
	notes := map[string]bool{}
	perPart := map[string]int64{}
	for _, f := range files {
		b, err := os.ReadFile(f)
		if err != nil {
			continue
		}
		var d dump
		if json.Unmarshal(b, &d) != nil {
			continue
		}
		if d.Part == "replay" {
			continue
		}
		evals += d.Evaluations
		nontriv += d.Nontrivial
		perPart[d.Part] += d.Evaluations
		if labels[d.Part] == nil {
			labels[d.Part] = map[string]int64{}
		}
		for k, v := range d.Labels {
			labels[d.Part][k] += v
		}
		for k, v := range d.Excluded {
			excluded[k] += v
		}
		for _, n := range d.Notes {
			notes[n] = true
		}
		if len(samples) < 10 {
			for _, s := range d.Samples {
				if len(samples) < 10 {
					samples = append(samples, map[string]interface{}{"part": d.Part, "case": s})
				}
			}
		}
		if hb, err := os.ReadFile(d.HashFile); err == nil {
			for i := 0; i+8 <= len(hb); i += 8 {
				hashes[binary.LittleEndian.Uint64(hb[i:])] = struct{}{}
			}
		}
	}
	var noteList []string
	for n := range notes {
		noteList = append(noteList, n)
	}
	sort.Strings(noteList)
	cov := map[string]interface{}{
		"evaluations":            evals,
		"distinct_nontrivial":    len(hashes),
		"nontrivial_total":       nontriv,
		"rule":                   p.Rule,
		"samples":                samples,
		"label_histogram":        labels,
		"evaluations_per_part":   perPart,
		"excluded_known":         excluded,
		"replayed_committed":     replayed,
		"processes":              njobs,
		"cases_short_of_request": shortfall,
		"exhaustive":             false,
	}
	if len(noteList) > 0 {
		cov["observations"] = noteList
	}
	ev := map[string]interface{}{
		"property_id": p.ID,
		"tier":        tier,
		"seed":        base,
		"level":       p.Level,
		"coverage":    cov,
		"assumptions": p.Assum,
		"wall_s":      float64(int(wall.Seconds()*10)) / 10,
		"violations":  violations,
	}
	return ev
}

func altRepo() bool {
	r := os.Getenv("VERIF_REPO")
	return r != "" && r != "/repo"
}

func writeEvidence(id string, ev map[string]interface{}) error {
	dir := filepath.Join(root, "evidence")
	if altRepo() {
		// sensitivity self-test on a scratch copy: never overwrite the real evidence
		dir = filepath.Join(root, ".build", "evidence-alt")
	}
	os.MkdirAll(dir, 0o755)
	b, err := json.MarshalIndent(ev, "", " ")
	if err != nil {
		return err
	}
	tmp := filepath.Join(dir, id+".json.tmp")
	if err := os.WriteFile(tmp, append(b, '\n'), 0o644); err != nil {
		return err
	}
	return os.Rename(tmp, filepath.Join(dir, id+".json"))
}

func doReplay(path string) int {
	abs, err := filepath.Abs(path)
	if err != nil {
		fatal(2, "%v", err)
	}
	b, err := os.ReadFile(abs)
	if err != nil {
		fatal(2, "read %s: %v", abs, err)
	}
	if bytes.HasPrefix(b, []byte("go test fuzz")) {
		return replayFuzzFile(abs)
	}
	var sc struct {
		Property string `json:"property"`
		Part     string `json:"part"`
	}
	if err := json.Unmarshal(b, &sc); err != nil {
		fatal(2, "parse %s: %v", abs, err)
	}
	race := false
	for _, p := range registry {
		for _, pt := range p.Parts {
			if pt.Test == sc.Part && pt.Race {
				race = true
			}
		}
	}
	bin, err := build(race)
	if err != nil {
		fatal(2, "build failed: %v", err)
	}
	renv := []string{"VERIF_REPLAY=" + abs, "VERIF_KNOWN=" + knownPath(), "VERIF_NO_EXCLUDE=1"}
	var cs struct {
		Case struct {
			Registry string `json:"registry"`
		} `json:"case"`
	}
	if json.Unmarshal(b, &cs) == nil && cs.Case.Registry != "" {
		renv = append(renv, "VERIF_REGISTRY="+cs.Case.Registry)
	}
	code, to, out := runTest(bin, []string{"-test.run", "^TestReplay$", "-test.v", "-test.timeout", "10m"},
		renv, 11*time.Minute,
		filepath.Join(root, ".build", "logs", "replay.log"))
	fmt.Println(tailOf(out, 30))
	if to {
		return 2
	}
	if strings.Contains(out, "REPLAY-VIOLATION") || strings.Contains(out, "WARNING: DATA RACE") {
		fmt.Printf("VIOLATION property=%s replay=%s\n", sc.Property, abs)
		return 1
	}
	if code != 0 {
		return 2
	}
	return 0
}

var execsRe = regexp.MustCompile(`execs: (\d+) .*new interesting: (\d+) \(total: (\d+)\)`)
var failingInputRe = regexp.MustCompile(`Failing input written to (\S+)`)

// runFuzz runs one native fuzz campaign. Returns its summary, the replay path of a violation
// ("" if none) and whether the campaign itself broke (infrastructure).
func runFuzz(p propCfg, fz fuzzCfg, work, logDir string) (map[string]interface{}, string, bool) {
	foundDir := filepath.Join(work, "found.fuzz."+fz.Target)
	args := []string{"test", "-vet=off"}
	args = append(args, buildArgs()...)
	args = append(args, buildTags()...)
	args = append(args, "-run", "^$", "-fuzz", "^"+fz.Target+"$", "-fuzztime", strconv.Itoa(fz.Seconds)+"s", "./props")
	cmd := exec.Command("go", args...)
	cmd.Dir = root
	cmd.Env = append(os.Environ(), "VERIF_FOUND_DIR="+foundDir, "VERIF_KNOWN="+knownPath(), "VERIF_TIER=thorough")
	cmd.Env = append(cmd.Env, fz.Env...)
	var buf bytes.Buffer
	cmd.Stdout, cmd.Stderr = &buf, &buf
	err := cmd.Run()
	out := buf.String()
	os.MkdirAll(logDir, 0o755)
	os.WriteFile(filepath.Join(logDir, p.ID+".fuzz."+fz.Target+".log"), buf.Bytes(), 0o644)
	fr := map[string]interface{}{"target": fz.Target, "seconds": fz.Seconds, "execs": int64(0), "corpus_total": int64(0)}
	if ms := execsRe.FindAllStringSubmatch(out, -1); len(ms) > 0 {
		m := ms[len(ms)-1]
		n, _ := strconv.ParseInt(m[1], 10, 64)
		tot, _ := strconv.ParseInt(m[3], 10, 64)
		fr["execs"], fr["corpus_total"] = n, tot
	}
	if err == nil {
		return fr, "", false
	}
	m := failingInputRe.FindStringSubmatch(out)
	if m == nil {
		fmt.Fprintf(os.Stderr, "vcheck: fuzz campaign %s failed without a failing input (infrastructure)\n%s\n", fz.Target, tailOf(out, 30))
		return fr, "", true
	}
	crasher := filepath.Join(root, "props", m[1])
	// re-run the minimised input alone so that the property writes its JSON case
	os.RemoveAll(foundDir)
	rargs := []string{"test", "-vet=off"}
	rargs = append(rargs, buildArgs()...)
	rargs = append(rargs, buildTags()...)
	rargs = append(rargs, "-run", "^"+fz.Target+"/"+filepath.Base(crasher)+"$", "./props")
	rc := exec.Command("go", rargs...)
	rc.Dir = root
	rc.Env = cmd.Env
	rc.Run()
	dst := ""
	if _, err := os.Stat(filepath.Join(foundDir, "last.json")); err == nil {
		dst = keepFound(p.ID, filepath.Join(foundDir, "last.json"))
	} else {
		// no JSON case (raw oracle inside the target): keep the corpus file itself
		dir := filepath.Join(root, "found", p.ID)
		if altRepo() {
			dir = filepath.Join(root, ".build", "found-alt", p.ID)
		}
		os.MkdirAll(dir, 0o755)
		dst = filepath.Join(dir, "fuzz-"+fz.Target+"-"+filepath.Base(crasher))
		if b, err := os.ReadFile(crasher); err == nil {
			os.WriteFile(dst, b, 0o644)
		}
	}
	os.Remove(crasher) // the committed tree keeps no crashers under testdata/
	os.Remove(filepath.Dir(crasher))
	fmt.Fprintf(os.Stderr, "vcheck: fuzz campaign %s found a failing input; log %s\n%s\n", fz.Target, filepath.Join(logDir, p.ID+".fuzz."+fz.Target+".log"), tailOf(out, 25))
	fr["failed"] = true
	return fr, dst, false
}

// replayFuzzFile re-runs a kept Go fuzz corpus file (found/<id>/fuzz-<Target>-<hash>).
func replayFuzzFile(abs string) int {
	name := filepath.Base(abs)
	parts := strings.SplitN(strings.TrimPrefix(name, "fuzz-"), "-", 2)
	if len(parts) != 2 {
		fatal(2, "cannot tell the fuzz target from %s", name)
	}
	target, hash := parts[0], parts[1]
	dir := filepath.Join(root, "props", "testdata", "fuzz", target)
	os.MkdirAll(dir, 0o755)
	b, err := os.ReadFile(abs)
	if err != nil {
		fatal(2, "%v", err)
	}
	tmp := filepath.Join(dir, "replay-"+hash)
	os.WriteFile(tmp, b, 0o644)
	defer func() {
		os.Remove(tmp)
		os.Remove(dir)
		os.Remove(filepath.Dir(dir))
		os.Remove(filepath.Dir(filepath.Dir(dir)))
	}()
	args := []string{"test", "-vet=off"}
	args = append(args, buildArgs()...)
	args = append(args, buildTags()...)
	args = append(args, "-run", "^"+target+"/replay-"+hash+"$", "-v", "./props")
	cmd := exec.Command("go", args...)
	cmd.Dir = root
	cmd.Env = append(os.Environ(), "VERIF_KNOWN="+knownPath(), "VERIF_NO_EXCLUDE=1")
	out, err := cmd.CombinedOutput()
	fmt.Println(tailOf(string(out), 30))
	if err != nil {
		prop := "?"
		for _, p := range registry {
			for _, fz := range p.Fuzz {
				if fz.Target == target {
					prop = p.ID
				}
			}
		}
		fmt.Printf("VIOLATION property=%s replay=%s\n", prop, abs)
		return 1
	}
	return 0
}
