// Package stats counts what a run actually generated: evaluations, distinct non-trivial
// cases (hashed), a label histogram and verbatim samples. One Collector per property part.
package stats

import (
	"encoding/binary"
	"encoding/json"
	"hash/fnv"
	"os"
	"sort"
	"sync"
)

// Dump is what a test process writes for the driver.
type Dump struct {
	Property    string            `json:"property"`
	Part        string            `json:"part"`
	Evaluations int64             `json:"evaluations"`
	Nontrivial  int64             `json:"nontrivial"`
	Labels      map[string]int64  `json:"labels"`
	Excluded    map[string]int64  `json:"excluded_known,omitempty"`
	Samples     []json.RawMessage `json:"samples"`
	Notes       []string          `json:"notes,omitempty"`
	HashFile    string            `json:"hash_file,omitempty"`
}

// Collector gathers the statistics of one property part.
type Collector struct {
	mu       sync.Mutex
	d        Dump
	hashes   map[uint64]struct{}
	maxSampl int
}

var (
	regMu sync.Mutex
	reg   = map[string]*Collector{}
)

// For returns the collector of a property part (created on first use).
func For(property, part string) *Collector {
	regMu.Lock()
	defer regMu.Unlock()
	k := property + "/" + part
	c, ok := reg[k]
	if !ok {
		c = &Collector{d: Dump{Property: property, Part: part, Labels: map[string]int64{}, Excluded: map[string]int64{}}, hashes: map[uint64]struct{}{}, maxSampl: 6}
		reg[k] = c
	}
	return c
}

// Case records one evaluated case. caseVal is marshalled (for hashing and sampling) only
// when the case is non-trivial.
func (c *Collector) Case(caseVal interface{}, nontrivial bool, labels ...string) {
	c.mu.Lock()
	defer c.mu.Unlock()
	c.d.Evaluations++
	for _, l := range labels {
		c.d.Labels[l]++
	}
	if !nontrivial {
		return
	}
	c.d.Nontrivial++
	b, err := json.Marshal(caseVal)
	if err != nil {
		return
	}
	h := fnv.New64a()
	h.Write(b)
	k := h.Sum64()
	if _, dup := c.hashes[k]; dup {
		return
	}
	c.hashes[k] = struct{}{}
	// keep a spread of samples: the 1st, 10th, 100th ... distinct non-trivial case
	n := len(c.hashes)
	if len(c.d.Samples) < c.maxSampl && isPow10(n) && len(b) < 6000 {
		c.d.Samples = append(c.d.Samples, json.RawMessage(b))
	}
}

func isPow10(n int) bool {
	for n >= 10 && n%10 == 0 {
		n /= 10
	}
	return n == 1
}

// Label bumps a histogram entry without counting an evaluation.
func (c *Collector) Label(l string, n int64) {
	c.mu.Lock()
	c.d.Labels[l] += n
	c.mu.Unlock()
}

// Exclude counts a failure that matched an open known finding.
func (c *Collector) Exclude(key string) {
	c.mu.Lock()
	c.d.Excluded[key]++
	c.mu.Unlock()
}

// Note attaches a free-text observation to the evidence.
func (c *Collector) Note(s string) {
	c.mu.Lock()
	for _, n := range c.d.Notes {
		if n == s {
			c.mu.Unlock()
			return
		}
	}
	if len(c.d.Notes) < 20 {
		c.d.Notes = append(c.d.Notes, s)
	}
	c.mu.Unlock()
}

// WriteAll dumps every collector to prefix+".<n>.json" (+ ".hashes").
func WriteAll(prefix string) error {
	regMu.Lock()
	defer regMu.Unlock()
	keys := make([]string, 0, len(reg))
	for k := range reg {
		keys = append(keys, k)
	}
	sort.Strings(keys)
	for i, k := range keys {
		c := reg[k]
		c.mu.Lock()
		base := prefix + "." + itoa(i)
		hf := base + ".hashes"
		buf := make([]byte, 0, 8*len(c.hashes))
		for h := range c.hashes {
			buf = binary.LittleEndian.AppendUint64(buf, h)
		}
		if err := os.WriteFile(hf, buf, 0o644); err != nil {
			c.mu.Unlock()
			return err
		}
		c.d.HashFile = hf
		b, _ := json.Marshal(c.d)
		c.mu.Unlock()
		if err := os.WriteFile(base+".json", b, 0o644); err != nil {
			return err
		}
	}
	return nil
}

func itoa(i int) string {
	if i == 0 {
		return "0"
	}
	s := ""
	for i > 0 {
		s = string(rune('0'+i%10)) + s
		i /= 10
	}
	return s
}
