// Package gen holds the rapid generators: route tables built from a small shared literal
// pool with sibling derivation, and requests derived from the table plus near-miss mutations.
package gen

import (
	"strconv"
	"strings"

	"pgregory.net/rapid"

	"verif/internal/model"
)

// Cfg bounds and shapes the generated tables and requests.
type Cfg struct {
	MaxServices int
	MaxRoutes   int
	MaxRootSegs int
	MaxSegs     int // route path segments
	RootVars    bool
	RootRegex   bool
	Regex       bool
	CurlyRegex  bool // the unanchored-only expression ^pre-
	Affix       bool
	Verb        bool
	Tail        bool
	Conds       bool
	Media       bool // generate Consumes/Produces
	NoCT        bool
	OddMethods  bool // FOO, get
	Adversarial bool // free-form hostile paths
	DistinctMux bool // roots must have pairwise distinct, non-nested ServeMux patterns
}

// ForRouter is the widest sound configuration for a router on the routing properties.
func ForRouter(router string) Cfg {
	c := Cfg{MaxServices: 4, MaxRoutes: 6, MaxRootSegs: 3, MaxSegs: 4, RootVars: true, RootRegex: true,
		Regex: true, Tail: true, Conds: true, Media: true, NoCT: true, OddMethods: true}
	if router == model.Curly {
		c.Affix, c.Verb, c.CurlyRegex = true, true, true
	}
	return c
}

// Common is the fragment both routers document identically (C17, C18).
func Common() Cfg {
	return Cfg{MaxServices: 4, MaxRoutes: 6, MaxRootSegs: 3, MaxSegs: 4, Conds: true, Media: true, NoCT: true, OddMethods: true}
}

var litPool = []string{"a", "b", "c", "users", "v1", "x.y", "a-b", "é", "A", "a+b", "(z)", "ab", "42"}

// ReEntry is a curated segment-level regular expression with matching and near-miss examples.
type ReEntry struct {
	Re      string
	Match   []string
	Partial []string // contain a match but are not one as a whole (unspecified region)
	Miss    []string
}

var rePool = []ReEntry{
	{`[0-9]+`, []string{"42", "7", "007"}, []string{"4x", "x4"}, []string{"ab", "a", "users"}},
	{`[a-z]+`, []string{"a", "ab", "users", "b"}, []string{"a1", "1a", "a-b"}, []string{"42", "A", "7"}},
	{`[A-Z][A-Z]`, []string{"NL", "AB"}, []string{"ABC", "xAB"}, []string{"A", "ab", "a"}},
	{`\d{2,4}`, []string{"42", "1234"}, []string{"12345", "a42"}, []string{"7", "a", "ab"}},
	{`[a-z0-9-]+`, []string{"a-b", "a", "42", "v1"}, []string{"A-b", "x.y"}, []string{"A", "é"}},
	{`(?:ab|cd)`, []string{"ab", "cd"}, []string{"abc", "xcd"}, []string{"a", "b", "users"}},
	{`x[0-9]*`, []string{"x", "x1", "x42"}, []string{"ax", "x.y", "xa"}, []string{"a", "42", "b"}},
	{`[a-z]+\.json`, []string{"a.json", "users.json"}, []string{"a.jsonx", "1a.json"}, []string{"a", "x.y", "ajson"}},
	{`\d+:\d+`, []string{"3:4", "10:20"}, []string{"a3:4", "3:4b"}, []string{"3", "a:b", "34"}},
	{`\w+`, []string{"a", "42", "ab", "v1"}, []string{"x.y", "a-b"}, []string{"é", "-"}},
}

var curlyRe = ReEntry{`^pre-`, nil, []string{"pre-x", "pre-"}, []string{"x", "apre-", "a"}}

// curlyAny: CurlyRouter evaluates a regular expression on one segment, so ".*" is "any one
// segment" there - wherever it stands, and nothing like the tail wildcard {name:*}
var curlyAny = ReEntry{`.*`, []string{"a", "x.y", "42", "a-b", "users"}, nil, nil}

func reEntry(re string) ReEntry {
	if re == curlyRe.Re {
		return curlyRe
	}
	if re == curlyAny.Re {
		return curlyAny
	}
	for _, e := range rePool {
		if e.Re == re {
			return e
		}
	}
	return ReEntry{Re: re}
}

var valuePool = []string{"a", "b", "c", "users", "v1", "x.y", "a-b", "é", "A", "42", "ab", "a:b1", "3:4", "x1", "7", "NL", "a.json", "pre-x", "zz", "a b", "a:b", "acme:eu", "x:run", "a\nb", "\n"}

var verbPool = []string{"run", "stop"}

var methodPool = []string{"GET", "POST", "PUT", "PATCH", "DELETE", "HEAD", "OPTIONS"}
var oddMethods = []string{"FOO", "get"}

// MediaPool are the media types used in Consumes/Produces and request headers.
var MediaPool = []string{"application/json", "application/xml", "text/plain", "application/octet-stream", "application/vnd.x+json"}

var affixPool = [][2]string{{"", ".foo"}, {"p_", ""}, {"foo_", "_bar"}, {"", "_x"}, {"v", ""}, {"ab", "ba"}, {"x", "x"}}

// overlapJoin glues prefix and suffix so that they share their common boundary characters
// ("foo_" + "_bar" -> "foo_bar"): a token that starts with the prefix and ends with the suffix
// but is too short to hold both.
func overlapJoin(pre, suf string) string {
	for k := min(len(pre), len(suf)); k > 0; k-- {
		if strings.HasSuffix(pre, suf[:k]) {
			return pre + suf[k:]
		}
	}
	return pre + suf
}

func pick(t *rapid.T, label string, pool []string) string {
	return pool[rapid.IntRange(0, len(pool)-1).Draw(t, label)]
}

func chance(t *rapid.T, label string, pct int) bool {
	return rapid.IntRange(0, 99).Draw(t, label) < pct
}

// tableCtx carries the literal sub-pool shared by the whole table.
type tableCtx struct {
	cfg  Cfg
	lits []string
}

func (c *tableCtx) lit(t *rapid.T) string { return pick(t, "lit", c.lits) }

// varName draws a variable name that is unique within root+route: a drawn stem plus the
// position. Names take part in path-string tie-breaks, so they are varied on purpose.
func varName(t *rapid.T, prefix string, i int) string {
	stem := rapid.SampledFrom([]string{"", "", "a", "z", "id", "x", "B"}).Draw(t, "namestem")
	return prefix + stem + strconv.Itoa(i)
}

func (c *tableCtx) seg(t *rapid.T, name string, root, last bool) model.Seg {
	cfg := c.cfg
	type opt struct {
		k string
		w int
	}
	opts := []opt{{model.Lit, 45}}
	if !root || cfg.RootVars {
		opts = append(opts, opt{model.Var, 30})
	}
	if (root && cfg.RootRegex) || (!root && cfg.Regex) {
		opts = append(opts, opt{model.VarRe, 12})
	}
	if !root && cfg.Affix {
		opts = append(opts, opt{model.Affix, 8})
	}
	if !root && last && cfg.Tail {
		opts = append(opts, opt{model.Tail, 10})
	}
	total := 0
	for _, o := range opts {
		total += o.w
	}
	x := rapid.IntRange(0, total-1).Draw(t, "segkind")
	kind := model.Lit
	for _, o := range opts {
		if x < o.w {
			kind = o.k
			break
		}
		x -= o.w
	}
	s := model.Seg{Kind: kind}
	switch kind {
	case model.Lit:
		s.Lit = c.lit(t)
	case model.Var, model.Tail:
		s.Name = name
	case model.VarRe:
		s.Name = name
		n := len(rePool)
		if cfg.CurlyRegex && !root {
			n += 2
		}
		i := rapid.IntRange(0, n-1).Draw(t, "re")
		switch {
		case i == len(rePool):
			s.Re = curlyRe.Re
		case i == len(rePool)+1:
			s.Re = curlyAny.Re
		default:
			s.Re = rePool[i].Re
		}
	case model.Affix:
		s.Name = name
		a := affixPool[rapid.IntRange(0, len(affixPool)-1).Draw(t, "affix")]
		s.Pre, s.Suf = a[0], a[1]
	}
	if !root && last && cfg.Verb && kind != model.Tail && kind != model.Affix && chance(t, "verb", 12) {
		s.Verb = pick(t, "verbname", verbPool)
	}
	return s
}

func (c *tableCtx) template(t *rapid.T, prefix string, root bool, maxSegs int) model.Template {
	n := rapid.IntRange(0, maxSegs).Draw(t, "nsegs")
	tp := make(model.Template, 0, n)
	for i := 0; i < n; i++ {
		tp = append(tp, c.seg(t, varName(t, prefix, i), root, i == n-1))
	}
	return tp
}

// mutateTemplate derives a sibling: flips single segments literal<->variable, adds or drops a
// regex constraint, verb, tail or trailing segment. Variable names follow the positions.
func (c *tableCtx) mutateTemplate(t *rapid.T, src model.Template, prefix string, root bool, maxSegs int) model.Template {
	tp := append(model.Template{}, src...)
	nmut := rapid.IntRange(1, 2).Draw(t, "nmut")
	for m := 0; m < nmut; m++ {
		op := rapid.IntRange(0, 6).Draw(t, "mutop")
		switch {
		case op == 6 && !root && c.cfg.Tail && len(tp) > 0:
			// tail wildcard <-> one or two plain variables (same URLs, different parameter counts)
			l := len(tp) - 1
			if tp[l].Kind == model.Tail {
				tp[l] = model.Seg{Kind: model.Var, Name: varName(t, prefix, l)}
				if len(tp) < maxSegs+1 && rapid.Bool().Draw(t, "twovars") {
					tp = append(tp, model.Seg{Kind: model.Var, Name: varName(t, prefix, l+1)})
				}
			} else if tp[l].Kind == model.Var && tp[l].Verb == "" {
				if l > 0 && tp[l-1].Kind == model.Var && rapid.Bool().Draw(t, "foldtwo") {
					tp = tp[:l]
					l--
				}
				tp[l] = model.Seg{Kind: model.Tail, Name: varName(t, prefix, l)}
			}
		case op <= 2 && len(tp) > 0: // re-draw one segment
			i := rapid.IntRange(0, len(tp)-1).Draw(t, "mutpos")
			tp[i] = c.seg(t, varName(t, prefix, i), root, i == len(tp)-1)
		case op == 3 && len(tp) < maxSegs: // extend
			if len(tp) > 0 {
				l := &tp[len(tp)-1]
				if l.Kind == model.Tail {
					*l = model.Seg{Kind: model.Var, Name: l.Name}
				}
				l.Verb = ""
			}
			tp = append(tp, c.seg(t, varName(t, prefix, len(tp)), root, true))
		case op == 4 && len(tp) > 0: // shorten
			tp = tp[:len(tp)-1]
		default: // flip literal <-> plain variable somewhere
			if len(tp) > 0 {
				i := rapid.IntRange(0, len(tp)-1).Draw(t, "flippos")
				v := tp[i].Verb
				switch {
				case tp[i].Kind == model.Lit:
					if !root || c.cfg.RootVars {
						tp[i] = model.Seg{Kind: model.Var, Name: varName(t, prefix, i), Verb: v}
					}
				case tp[i].Kind == model.Affix:
					// a literal that the affixed variable also matches
					tp[i] = model.Seg{Kind: model.Lit, Lit: tp[i].Pre + c.lit(t) + tp[i].Suf, Verb: v}
				case tp[i].Kind == model.VarRe && len(reEntry(tp[i].Re).Match) > 0 && rapid.Bool().Draw(t, "litfromre"):
					// a literal that satisfies the regular expression
					tp[i] = model.Seg{Kind: model.Lit, Lit: pick(t, "relit", reEntry(tp[i].Re).Match), Verb: v}
				default:
					tp[i] = model.Seg{Kind: model.Lit, Lit: c.lit(t), Verb: v}
				}
			}
		}
	}
	// repair: tails and verbs only on the last segment
	for i := range tp {
		if i != len(tp)-1 {
			if tp[i].Kind == model.Tail {
				tp[i] = model.Seg{Kind: model.Var, Name: tp[i].Name}
			}
			tp[i].Verb = ""
		}
		if tp[i].IsVar() {
			// keep the stem, re-number by position so that names stay unique
			stem := strings.TrimRight(strings.TrimPrefix(tp[i].Name, prefix), "0123456789")
			tp[i].Name = prefix + stem + strconv.Itoa(i)
		}
	}
	return tp
}

func (c *tableCtx) mediaList(t *rapid.T, label string) []string {
	if !c.cfg.Media {
		return nil
	}
	x := rapid.IntRange(0, 9).Draw(t, label+"kind")
	switch {
	case x < 4:
		return nil
	case x == 4:
		return []string{"*/*"}
	}
	n := rapid.IntRange(1, 3).Draw(t, label+"n")
	var out []string
	for i := 0; i < n; i++ {
		m := pick(t, label, MediaPool)
		dup := false
		for _, o := range out {
			if o == m {
				dup = true
			}
		}
		if !dup {
			out = append(out, m)
		}
	}
	return out
}

// CondHeader is the request header generated conditions look at.
var condHeaders = []string{"X-Cond-A", "X-Cond-B"}

func (c *tableCtx) route(t *rapid.T, id string, siblings []model.RouteSpec) model.RouteSpec {
	cfg := c.cfg
	r := model.RouteSpec{ID: id}
	if len(siblings) > 0 && chance(t, "sibling", 55) {
		src := siblings[rapid.IntRange(0, len(siblings)-1).Draw(t, "sibsrc")]
		how := rapid.IntRange(0, 3).Draw(t, "sibhow")
		r.Method, r.Consumes, r.Produces = src.Method, src.Consumes, src.Produces
		if how == 0 {
			// same template, change method / media only
			r.Path = append(model.Template{}, src.Path...)
			switch rapid.IntRange(0, 2).Draw(t, "sibwhat") {
			case 0:
				r.Method = c.method(t)
			case 1:
				r.Consumes = c.mediaList(t, "consumes")
			default:
				r.Produces = c.mediaList(t, "produces")
			}
		} else {
			r.Path = c.mutateTemplate(t, src.Path, "p", false, cfg.MaxSegs)
			if how == 3 {
				r.Method = c.method(t)
			}
		}
	} else {
		r.Method = c.method(t)
		r.Path = c.template(t, "p", false, cfg.MaxSegs)
		r.Consumes = c.mediaList(t, "consumes")
		r.Produces = c.mediaList(t, "produces")
	}
	if chance(t, "pathform", 25) {
		r.PathForm = rapid.IntRange(1, 3).Draw(t, "pathformkind")
	}
	if chance(t, "style", 30) {
		r.Style = rapid.IntRange(1, 31).Draw(t, "stylebits")
	}
	if cfg.Conds && chance(t, "hascond", 15) {
		n := rapid.IntRange(1, 2).Draw(t, "nconds")
		for i := 0; i < n; i++ {
			r.Conds = append(r.Conds, model.Cond{Header: condHeaders[i], Value: pick(t, "condval", []string{"1", "2"})})
		}
	}
	if cfg.NoCT && len(r.Consumes) > 0 && chance(t, "noct", 15) {
		r.NoCT = []string{pick(t, "noctm", methodPool)}
		if chance(t, "noct2", 50) {
			r.NoCT = append(r.NoCT, r.Method)
		}
	}
	return r
}

func (c *tableCtx) method(t *rapid.T) string {
	if c.cfg.OddMethods && chance(t, "oddmethod", 5) {
		return pick(t, "method", oddMethods)
	}
	// weight towards few methods so that routes collide on method
	if chance(t, "commonmethod", 60) {
		return pick(t, "method", methodPool[:3])
	}
	return pick(t, "method", methodPool)
}

// MuxPattern is the ServeMux pattern go-restful derives from a root path: its fixed prefix.
func MuxPattern(root model.Template) string {
	s := root.String()
	if i := strings.Index(s, "{"); i >= 0 {
		s = s[:i]
	}
	return s
}

// muxConflict reports whether two roots cannot be registered on one ServeMux by Container.Add
// (known finding D7): their fixed prefixes register the same pattern.
func muxConflict(a, b model.Template) bool {
	pa, pb := MuxPattern(a), MuxPattern(b)
	set := func(p string) []string {
		if p == "/" || p == "" {
			return []string{"/"}
		}
		if strings.HasSuffix(p, "/") {
			return []string{p}
		}
		return []string{p, p + "/"}
	}
	for _, x := range set(pa) {
		for _, y := range set(pb) {
			if x == y {
				return true
			}
		}
	}
	return false
}

// MuxConflict is exported for the registration property.
func MuxConflict(a, b model.Template) bool { return muxConflict(a, b) }

// Table generates a route table.
func Table(t *rapid.T, cfg Cfg) model.TableSpec {
	c := &tableCtx{cfg: cfg}
	nl := rapid.IntRange(2, 5).Draw(t, "nlits")
	start := rapid.IntRange(0, len(litPool)-1).Draw(t, "litstart")
	for i := 0; i < nl; i++ {
		c.lits = append(c.lits, litPool[(start+i*3)%len(litPool)])
	}
	ns := rapid.IntRange(1, cfg.MaxServices).Draw(t, "nservices")
	var tb model.TableSpec
	seenRoot := map[string]bool{}
	for si := 0; si < ns; si++ {
		var root model.Template
		ok := false
		for try := 0; try < 6 && !ok; try++ {
			if len(tb.Services) > 0 && chance(t, "rootsibling", 50) {
				src := tb.Services[rapid.IntRange(0, len(tb.Services)-1).Draw(t, "rootsrc")].Root
				root = c.mutateTemplate(t, src, "r", true, cfg.MaxRootSegs)
			} else {
				root = c.template(t, "r", true, cfg.MaxRootSegs)
			}
			ok = !seenRoot[root.String()]
			if ok && cfg.DistinctMux {
				for _, s := range tb.Services {
					if muxConflict(s.Root, root) {
						ok = false
					}
				}
			}
		}
		if !ok {
			continue
		}
		seenRoot[root.String()] = true
		s := model.ServiceSpec{Root: root}
		if chance(t, "rootform", 25) {
			switch {
			case len(root) == 0:
				s.RootForm = 2
			case root[0].Kind != model.Lit && chance(t, "slashless", 50):
				s.RootForm = 3
			default:
				s.RootForm = 1
			}
		}
		s.Docs = chance(t, "svcdocs", 15)
		// dynamic routes: the same declarations, registered under the WebService's lock
		s.Dynamic = chance(t, "dynamicroutes", 12)
		if cfg.Media && chance(t, "svcmedia", 20) {
			s.Consumes = c.mediaList(t, "svcconsumes")
			s.Produces = c.mediaList(t, "svcproduces")
		}
		nr := rapid.IntRange(0, cfg.MaxRoutes).Draw(t, "nroutes")
		for ri := 0; ri < nr; ri++ {
			id := "s" + strconv.Itoa(len(tb.Services)) + "r" + strconv.Itoa(ri)
			s.Routes = append(s.Routes, c.route(t, id, s.Routes))
		}
		if cfg.Media && len(s.Routes) >= 2 && chance(t, "mediahistory", 15) {
			// the service's default media types are changed after the first k routes were registered
			k := rapid.IntRange(1, len(s.Routes)-1).Draw(t, "latefrom")
			for i := k; i < len(s.Routes); i++ {
				s.Routes[i].Late = true
			}
			if len(s.Consumes) == 0 && len(s.Produces) == 0 {
				s.Consumes = c.mediaList(t, "svcconsumes")
				s.Produces = c.mediaList(t, "svcproduces")
			}
			s.Consumes2 = c.mediaList(t, "svcconsumes2")
			s.Produces2 = c.mediaList(t, "svcproduces2")
		}
		tb.Services = append(tb.Services, s)
	}
	return tb
}

// ---------------------------------------------------------------------------------------
// requests

func valueFor(t *rapid.T, s model.Seg, lits []string) string {
	switch s.Kind {
	case model.VarRe:
		e := reEntry(s.Re)
		x := rapid.IntRange(0, 9).Draw(t, "reval")
		switch {
		case x < 7 && len(e.Match) > 0:
			return pick(t, "rematch", e.Match)
		case x < 8 && len(e.Partial) > 0:
			return pick(t, "repartial", e.Partial)
		case len(e.Miss) > 0:
			return pick(t, "remiss", e.Miss)
		case len(e.Partial) > 0:
			return pick(t, "repartial", e.Partial)
		}
		return pick(t, "rematch", e.Match)
	default:
		if chance(t, "vallit", 50) {
			return pick(t, "val", lits)
		}
		return pick(t, "val", valuePool)
	}
}

func instantiate(t *rapid.T, full model.Template, lits []string) []string {
	var segs []string
	for _, s := range full {
		var v string
		switch s.Kind {
		case model.Lit:
			v = s.Lit
		case model.Affix:
			switch rapid.IntRange(0, 9).Draw(t, "affixform") {
			case 0:
				v = overlapJoin(s.Pre, s.Suf)
			case 1:
				v = s.Pre + s.Suf
			default:
				v = s.Pre + valueFor(t, s, lits) + s.Suf
			}
		case model.Tail:
			n := rapid.IntRange(1, 3).Draw(t, "tailn")
			for i := 0; i < n; i++ {
				segs = append(segs, valueFor(t, model.Seg{Kind: model.Var}, lits))
			}
			continue
		default:
			v = valueFor(t, s, lits)
		}
		if s.Verb != "" {
			v += ":" + s.Verb
		}
		segs = append(segs, v)
	}
	return segs
}

func tableLits(tb model.TableSpec) []string {
	m := map[string]bool{}
	var out []string
	add := func(tp model.Template) {
		for _, s := range tp {
			if s.Kind == model.Lit && !m[s.Lit] {
				m[s.Lit] = true
				out = append(out, s.Lit)
			}
		}
	}
	for _, s := range tb.Services {
		add(s.Root)
		for _, r := range s.Routes {
			add(r.Path)
		}
	}
	if len(out) == 0 {
		out = []string{"a", "b"}
	}
	return out
}

var hostilePaths = []string{"", "//", "/:", "/{", "/}", "/a//b", "a/b", "//a", "/a/b//", "/:run", "/.foo", "/{x}", "/a/{v:*}", "/a:", "/%2F", "/a\x00b", "/é/\U0001F600", "/a/./b", "/a/../b", "/ ", "/a/ /b", "///", "/a\nb", "/\n", "/a/b\n"}

func joinPath(segs []string) string {
	if len(segs) == 0 {
		return "/"
	}
	return "/" + strings.Join(segs, "/")
}

// Request generates one request for the table.
func Request(t *rapid.T, tb model.TableSpec, cfg Cfg) model.ReqSpec {
	lits := tableLits(tb)
	var routes []struct {
		s model.ServiceSpec
		r model.RouteSpec
	}
	for _, s := range tb.Services {
		for _, r := range s.Routes {
			routes = append(routes, struct {
				s model.ServiceSpec
				r model.RouteSpec
			}{s, r})
		}
	}
	var req model.ReqSpec
	derived := len(routes) > 0 && chance(t, "derived", 90)
	if !derived {
		// free-form
		if cfg.Adversarial && chance(t, "hostile", 50) {
			switch rapid.IntRange(0, 3).Draw(t, "hostilekind") {
			case 0:
				req.Path = pick(t, "hostilepath", hostilePaths)
			case 1:
				req.Path = rapid.StringN(0, 40, 80).Draw(t, "anypath")
			case 2:
				n := rapid.IntRange(0, 6).Draw(t, "nsegs")
				var segs []string
				for i := 0; i < n; i++ {
					segs = append(segs, rapid.SampledFrom([]string{"", "a", ":", "{", "}", "{x}", "a:b", "é", ":run", "x.foo", " "}).Draw(t, "hseg"))
				}
				req.Path = "/" + strings.Join(segs, "/")
			default:
				n := rapid.SampledFrom([]int{100, 1000, 5000}).Draw(t, "longn")
				if chance(t, "longseg", 50) {
					req.Path = "/" + strings.Repeat("a", n*10)
				} else {
					req.Path = strings.Repeat("/a", n)
				}
			}
		} else {
			n := rapid.IntRange(0, 5).Draw(t, "nsegs")
			var segs []string
			for i := 0; i < n; i++ {
				if chance(t, "seglit", 70) {
					segs = append(segs, pick(t, "seg", lits))
				} else {
					segs = append(segs, pick(t, "seg", valuePool))
				}
			}
			req.Path = joinPath(segs)
		}
		req.Method = pick(t, "method", methodPool)
		if chance(t, "hasct", 30) {
			req.Headers = append(req.Headers, model.H{K: "Content-Type", V: pick(t, "ct", MediaPool)})
		}
		if chance(t, "hasacc", 30) {
			req.Headers = append(req.Headers, model.H{K: "Accept", V: pick(t, "acc", MediaPool)})
		}
		if chance(t, "hasbody", 30) {
			req.Body = "{}"
		}
		return req
	}

	pr := routes[rapid.IntRange(0, len(routes)-1).Draw(t, "target")]
	full := pr.s.Full(pr.r)
	segs := instantiate(t, full, lits)
	req.Method = pr.r.Method
	consumes, produces := pr.s.EffConsumes(pr.r), pr.s.EffProduces(pr.r)

	// body
	bodyPct := 12
	if req.Method == "POST" || req.Method == "PUT" || req.Method == "PATCH" {
		bodyPct = 65
	}
	if chance(t, "hasbody", bodyPct) {
		req.Body = `{"k":1}`
	}
	// Content-Type
	ct := ""
	switch x := rapid.IntRange(0, 9).Draw(t, "ctkind"); {
	case x < 6:
		if len(consumes) > 0 {
			ct = pick(t, "ct", consumes)
			if ct == "*/*" {
				ct = pick(t, "ct2", MediaPool)
			}
			if chance(t, "ctextended", 8) {
				// another media type whose name merely starts with (or ends in) a consumed one
				if chance(t, "ctextfront", 25) {
					ct = "x-" + ct
				} else {
					ct += pick(t, "ctext", []string{"5", "l", "-patch+json", "+x", ".v2"})
				}
			}
			if chance(t, "ctparam", 20) {
				ct += "; charset=utf-8"
			}
		} else if req.Body != "" {
			ct = pick(t, "ct", MediaPool)
		}
	case x < 8:
		ct = pick(t, "ct", MediaPool)
	case x == 9 && chance(t, "ctwild", 30):
		// a wildcard is something an Accept header or a Consumes list may say, not a Content-Type:
		// it names no media type a route consumes
		ct = pick(t, "ctwild", []string{"*/*", "*/*; charset=utf-8", "application/*"})
	case x == 8 && chance(t, "ctlist", 40):
		// not a documented input, but an "arbitrary Content-Type string" all the same: a list
		ct = pick(t, "ct", MediaPool) + pick(t, "ctsep", []string{",", ", ", " ,"}) + pick(t, "ct2", MediaPool)
	}
	// Accept
	acc := ""
	switch x := rapid.IntRange(0, 9).Draw(t, "acckind"); {
	case x < 3:
	case x < 6:
		if len(produces) > 0 {
			acc = pick(t, "acc", produces)
		} else {
			acc = "*/*"
		}
	case x < 8:
		acc = pick(t, "acc", MediaPool)
	case x < 9:
		acc = pick(t, "acc", MediaPool) + ";q=0.8, " + pick(t, "acc2", append([]string{"*/*", "text/html"}, MediaPool...))
	default:
		acc = pick(t, "accodd", []string{"*/*", "text/*", "application/*", "APPLICATION/JSON", "application/json;q=0", " application/xml", "application/json , application/xml", "", "text/html", "application/json;q", "application/xml ;q=0.9", "*/*;q"})
	}
	// conditions
	for _, c := range pr.r.Conds {
		if chance(t, "condok", 85) {
			req.Headers = append(req.Headers, model.H{K: c.Header, V: c.Value})
		} else if chance(t, "condwrong", 50) {
			req.Headers = append(req.Headers, model.H{K: c.Header, V: "other"})
		}
	}

	// near-miss mutations
	nm := rapid.SampledFrom([]int{0, 0, 0, 1, 1, 2}).Draw(t, "nmut")
	trailing := false
	for i := 0; i < nm; i++ {
		switch rapid.IntRange(0, 13).Draw(t, "mut") {
		case 13: // one character of one segment replaced ("x.y" -> "xzy", "v1" -> "v.", "(z)" -> "(zz"):
			// a literal has to be met character by character, whatever the character means elsewhere
			if len(segs) > 0 {
				j := rapid.IntRange(0, len(segs)-1).Draw(t, "charpos")
				if r := []rune(segs[j]); len(r) > 0 {
					k := rapid.IntRange(0, len(r)-1).Draw(t, "charidx")
					r[k] = []rune(pick(t, "charval", []string{"z", "x", ".", "-", "1", "Z", "+", "é", "_"}))[0]
					segs[j] = string(r)
				}
			}
		case 12: // an empty segment in the interior ("/a//b"): a segment like any other
			if len(segs) >= 2 {
				j := rapid.IntRange(1, len(segs)-1).Draw(t, "emptypos")
				segs = append(segs[:j], append([]string{""}, segs[j:]...)...)
			}
		case 0, 1: // edit one segment
			if len(segs) > 0 {
				j := rapid.IntRange(0, len(segs)-1).Draw(t, "editpos")
				if chance(t, "editlit", 60) {
					segs[j] = pick(t, "editval", lits)
				} else {
					segs[j] = pick(t, "editval", valuePool)
				}
			}
		case 2: // drop last
			if len(segs) > 0 {
				segs = segs[:len(segs)-1]
			}
		case 3: // append
			segs = append(segs, pick(t, "appendval", lits))
		case 4:
			trailing = true
		case 5: // verb change
			if len(segs) > 0 {
				base, verb := model.SplitVerb(segs[len(segs)-1])
				if verb != "" {
					if chance(t, "dropverb", 50) {
						segs[len(segs)-1] = base
					} else {
						segs[len(segs)-1] = base + ":" + pick(t, "otherverb", []string{"run", "stop", "rerun", "ru"})
					}
				} else {
					segs[len(segs)-1] += ":" + pick(t, "addverb", verbPool)
				}
			}
		case 6:
			m := pick(t, "othermethod", methodPool)
			if cfg.OddMethods && chance(t, "lowermethod", 20) {
				m = strings.ToLower(req.Method)
			}
			req.Method = m
		case 7:
			ct = pick(t, "otherct", append([]string{""}, MediaPool...))
		case 8:
			acc = pick(t, "otheracc", append([]string{"", "text/html"}, MediaPool...))
		case 9:
			if req.Body == "" {
				req.Body = "x"
			} else {
				req.Body = ""
			}
		case 10: // shorten a segment (partial regex / affix miss)
			if len(segs) > 0 {
				j := rapid.IntRange(0, len(segs)-1).Draw(t, "shortpos")
				r := []rune(segs[j])
				if len(r) > 1 {
					k := rapid.IntRange(1, len(r)-1).Draw(t, "shortlen")
					if chance(t, "shorthead", 50) {
						segs[j] = string(r[:k])
					} else {
						segs[j] = string(r[len(r)-k:])
					}
				}
			}
		default:
			req.Headers = append(req.Headers, model.H{K: condHeaders[0], V: pick(t, "flipcond", []string{"1", "2"})})
		}
	}
	req.Path = joinPath(segs)
	if trailing && req.Path != "/" {
		req.Path += "/"
	}
	if ct != "" {
		req.Headers = append(req.Headers, model.H{K: "Content-Type", V: ct})
	}
	if acc != "" {
		req.Headers = append(req.Headers, model.H{K: "Accept", V: acc})
	}
	if req.Body == "" && chance(t, "zerocl", 20) {
		req.ZeroCL = true
	}
	if req.Body != "" && chance(t, "chunked", 12) {
		req.Chunked = true
	}
	// a header may have been added twice by the cond flip; keep the first occurrence only
	seen := map[string]bool{}
	var hs []model.H
	for _, h := range req.Headers {
		if !seen[h.K] {
			seen[h.K] = true
			hs = append(hs, h)
		}
	}
	req.Headers = hs
	return req
}
