// Package harness builds go-restful containers from model specs, sends requests and
// records what the framework did. It never decides anything: oracles live in props/.
package harness

import (
	"fmt"
	"io"
	"net/http"
	"net/http/httptest"
	"net/url"
	"os"
	"regexp"
	"runtime"
	"sort"
	"strconv"
	"strings"
	"sync"
	"time"

	restful "github.com/emicklei/go-restful/v3"

	"verif/internal/model"
)

type discard struct{}

func (discard) Print(v ...interface{}) {
	if os.Getenv("VERIF_DEBUG") != "" {
		fmt.Fprintln(os.Stderr, v...)
	}
}
func (discard) Printf(format string, v ...interface{}) {
	if os.Getenv("VERIF_DEBUG") != "" {
		fmt.Fprintf(os.Stderr, format+"\n", v...)
	}
}

var once sync.Once

// ResetGlobals puts every package-level switch of go-restful back to its default.
// The entity accessor registry cannot be reset through the API; it is per process.
func ResetGlobals() {
	once.Do(func() { restful.SetLogger(discard{}) })
	restful.TraceLogger(discard{})
	restful.EnableTracing(false)
	restful.PrettyPrintResponses = true
	restful.DefaultResponseContentType("")
	restful.DefaultRequestContentType("")
	restful.TrimRightSlashEnabled = true
	restful.SetCompressorProvider(defaultProvider)
	restful.DefaultContainer = restful.NewContainer()
}

var defaultProvider = restful.CurrentCompressorProvider()

// OriginalDefaultContainer is the package-level DefaultContainer as the library's init() built
// it (ResetGlobals installs fresh ones afterwards).
var OriginalDefaultContainer = restful.DefaultContainer

// SetTrace switches trace logging (to a discarding logger).
func SetTrace(on bool) {
	restful.TraceLogger(discard{})
	restful.EnableTracing(on)
}

// SetTraceOff switches trace logging off in one of the two documented ways:
// EnableTracing(false), or TraceLogger(nil).
func SetTraceOff(viaNilLogger bool) {
	if viaNilLogger {
		restful.TraceLogger(nil)
		return
	}
	SetTrace(false)
}

// ReqIDHeader carries the harness' request id so that concurrent requests keep separate logs.
const ReqIDHeader = "X-Verif-Req"

// Event is one entry of a request's event log.
type Event struct {
	Kind      string            `json:"kind"` // "cf<i>", "sf<i>", "rf<i>", "h"
	Route     string            `json:"route,omitempty"`
	SelPath   string            `json:"sel_path"`
	SelMethod string            `json:"sel_method,omitempty"`
	SelDoc    string            `json:"sel_doc,omitempty"`
	SelOp     string            `json:"sel_op,omitempty"`
	SelMeta   string            `json:"sel_meta,omitempty"`
	SelCons   []string          `json:"sel_cons,omitempty"`
	Params    map[string]string `json:"params,omitempty"`
}

// Recorder collects events per request id.
type Recorder struct {
	mu   sync.Mutex
	logs map[string][]Event
}

func NewRecorder() *Recorder { return &Recorder{logs: map[string][]Event{}} }

func (r *Recorder) add(id string, e Event) {
	r.mu.Lock()
	r.logs[id] = append(r.logs[id], e)
	r.mu.Unlock()
}

// Take returns and forgets the log of a request.
func (r *Recorder) Take(id string) []Event {
	r.mu.Lock()
	defer r.mu.Unlock()
	l := r.logs[id]
	delete(r.logs, id)
	return l
}

func snapshot(req *restful.Request, kind, route string) Event {
	e := Event{Kind: kind, Route: route, SelPath: req.SelectedRoutePath()}
	if sr := req.SelectedRoute(); sr != nil {
		e.SelMethod, e.SelDoc, e.SelOp = sr.Method(), sr.Doc(), sr.Operation()
		e.SelMeta = fmt.Sprint(sr.Metadata()["verif"])
		e.SelCons = append([]string(nil), sr.Consumes()...)
	}
	e.Params = map[string]string{}
	for k, v := range req.PathParameters() {
		e.Params[k] = v
		// the single-name accessor reads the same binding
		if got := req.PathParameter(k); got != v {
			e.Params["PathParameter("+k+") differs from PathParameters()"] = got
		}
	}
	return e
}

// Options control how a table is turned into a container.
type Options struct {
	Router           string // model.Curly or model.JSR311
	ContainerFilters int    // number of recording pass-through container filters
	OptionsFilter    bool   // install Container.OPTIONSFilter as first container filter
	// AsDefault makes the container the package's DefaultContainer (and installs the OPTIONS
	// filter through the package function restful.OPTIONSFilter())
	AsDefault bool
	Encoding  bool
	Recover   bool
	// SwapRouterFirst installs the other router first and then the intended one (a
	// configuration history: nothing of the replaced router may stay behind).
	SwapRouterFirst bool
	// Setup runs right after the container was created (before the recording filters are added).
	Setup func(c *restful.Container)
	// Services is filled by Build: the WebService values in table order.
	Services []*restful.WebService
	// Handler is what the route functions do besides recording (nil = DefaultHandler); used by
	// builders that add the services themselves.
	Handler RouteHandler
}

// RouteHandler is what a generated route function does besides recording; nil = default.
type RouteHandler func(routeID string, req *restful.Request, resp *restful.Response)

// DefaultHandler writes 200, an X-Route header and the route id as body.
func DefaultHandler(routeID string, req *restful.Request, resp *restful.Response) {
	resp.Header().Set("X-Route", routeID)
	resp.WriteHeader(200)
	io.WriteString(resp, routeID)
}

// EntityHandler answers through the entity writer (content negotiation on the request's
// Accept header) instead of raw bytes.
func EntityHandler(routeID string, req *restful.Request, resp *restful.Response) {
	resp.Header().Set("X-Route", routeID)
	resp.WriteEntity(struct{ Route string }{routeID})
}

// NewService builds one WebService from its spec.
func NewService(s model.ServiceSpec, rec *Recorder, h RouteHandler) *restful.WebService {
	ws := new(restful.WebService)
	switch {
	case s.RootForm == 2 && len(s.Root) == 0:
		// no Path() call at all
	case s.RootForm == 1 && len(s.Root) > 0:
		ws.Path(s.Root.String() + "/")
	case s.RootForm == 3 && len(s.Root) > 0 && s.Root[0].Kind != model.Lit:
		ws.Path(s.Root.String()[1:]) // "{tenant}/items": no leading slash
	default:
		ws.Path(s.Root.String())
	}
	if s.Docs {
		ws.ApiVersion("1.2.3").Doc("documentation only")
		for _, v := range s.Root.VarNames() {
			ws.Param(ws.PathParameter(v, "a root path variable").DataType("string"))
		}
		ws.TypeNameHandler(func(sample interface{}) string { return "T" })
	}
	if s.Dynamic {
		ws.SetDynamicRoutes(true)
	}
	if len(s.Consumes) > 0 {
		ws.Consumes(s.Consumes...)
	}
	if len(s.Produces) > 0 {
		ws.Produces(s.Produces...)
	}
	for i := 0; i < s.NFilters; i++ {
		kind := "sf" + strconv.Itoa(i)
		ws.Filter(func(req *restful.Request, resp *restful.Response, chain *restful.FilterChain) {
			rec.add(req.Request.Header.Get(ReqIDHeader), snapshot(req, kind, ""))
			chain.ProcessFilter(req, resp)
		})
	}
	late := false
	for _, r := range s.Routes {
		if r.Late != late {
			// the WebService's default media types are set again before this route is registered
			late = r.Late
			if late {
				ws.Consumes(s.Consumes2...)
				ws.Produces(s.Produces2...)
			} else {
				ws.Consumes(s.Consumes...)
				ws.Produces(s.Produces...)
			}
		}
		ws.Route(NewRoute(ws, r, rec, h))
	}
	return ws
}

// RoutePathString renders the relative route path the way it is handed to the builder.
func RoutePathString(t model.Template) string {
	if len(t) == 0 {
		return ""
	}
	return t.String()
}

// RoutePathForm renders the relative path in one of the spellings users write.
func RoutePathForm(t model.Template, form int) string {
	if len(t) == 0 {
		if form == 1 || form == 3 {
			return "/"
		}
		return ""
	}
	s := t.String()
	if form == 2 || form == 3 {
		s = s[1:]
	}
	if (form == 1 || form == 3) && t[len(t)-1].Verb == "" {
		s += "/"
	}
	return s
}

// Builder-call styles of a route (RouteSpec.Style, a bit set). None of them changes what is
// declared; they are the different ways users write the same declaration.
const (
	StyleConvenience = 1  // ws.GET(path) … ws.OPTIONS(path) where the method has such a function
	StyleLateHead    = 2  // function, conditions, filters, media types first; Method and Path last
	StyleDocs        = 4  // documentation-only calls (Operation, Notes, Param, Reads, Writes, Returns, Metadata, Deprecate, Do)
	StyleOverwrite   = 8  // Method, Path, Consumes, Produces are first set to decoys and then to the real values
	StyleExtraBuild  = 16 // Build() is called once by the user before the builder is handed to Route
)

type docSample struct {
	Name string `json:"name" xml:"name"`
}

var convenience = map[string]func(*restful.WebService, string) *restful.RouteBuilder{
	"GET":     (*restful.WebService).GET,
	"POST":    (*restful.WebService).POST,
	"PUT":     (*restful.WebService).PUT,
	"PATCH":   (*restful.WebService).PATCH,
	"DELETE":  (*restful.WebService).DELETE,
	"HEAD":    (*restful.WebService).HEAD,
	"OPTIONS": (*restful.WebService).OPTIONS,
}

// NewRoute creates the RouteBuilder for a route spec.
func NewRoute(ws *restful.WebService, r model.RouteSpec, rec *Recorder, h RouteHandler) *restful.RouteBuilder {
	if h == nil {
		h = DefaultHandler
	}
	id := r.ID
	path := RoutePathForm(r.Path, r.PathForm)
	var rb *restful.RouteBuilder
	headDone := false
	switch {
	case r.Style&StyleLateHead != 0:
		rb = ws.PUT("/decoy-" + id)
	case r.Style&StyleConvenience != 0 && convenience[r.Method] != nil:
		rb = convenience[r.Method](ws, path)
		headDone = true
	default:
		rb = ws.Method(r.Method).Path(path)
		headDone = true
	}
	rb.Doc(id)
	if r.Style&StyleOverwrite != 0 {
		// the last call of a setter is the one that counts
		rb.Method("TRACE").Path("/decoy/{overwritten}")
		headDone = false
		if len(r.Consumes) > 0 {
			rb.Consumes("application/x-decoy").Consumes(r.Consumes...)
		}
		if len(r.Produces) > 0 {
			rb.Produces("application/x-decoy").Produces(r.Produces...)
		}
		if len(r.NoCT) > 0 {
			rb.AllowedMethodsWithoutContentType([]string{"TRACE", "POST", "PUT", "PATCH"}).AllowedMethodsWithoutContentType(r.NoCT)
		}
	} else {
		if len(r.Consumes) > 0 {
			rb.Consumes(r.Consumes...)
		}
		if len(r.Produces) > 0 {
			rb.Produces(r.Produces...)
		}
		if len(r.NoCT) > 0 {
			rb.AllowedMethodsWithoutContentType(r.NoCT)
		}
	}
	if r.Enc != nil {
		rb.ContentEncodingEnabled(*r.Enc)
	}
	if r.Style&StyleDocs != 0 {
		rb.Operation("op-"+id).Notes("notes "+id).Metadata("verif", id).AddExtension("x-verif", id)
		for _, v := range r.Path.VarNames() {
			rb.Param(ws.PathParameter(v, "a path variable").DataType("string"))
		}
		rb.Param(ws.QueryParameter("q", "a query parameter").Required(false)).
			Param(ws.HeaderParameter("X-Doc", "a header parameter")).
			Reads(docSample{}).Writes(docSample{}).
			Returns(200, "OK", docSample{}).Returns(404, "Not Found", nil).
			DefaultReturns("default", docSample{}).
			Do(func(b *restful.RouteBuilder) { b.ReturnsError(500, "Internal Server Error", nil) })
		if len(id)%2 == 0 {
			rb.Deprecate()
		}
	}
	for _, c := range r.Conds {
		c := c
		rb.If(func(hr *http.Request) bool { return hr.Header.Get(c.Header) == c.Value })
	}
	for i := 0; i < r.NFilters; i++ {
		kind := "rf" + strconv.Itoa(i)
		rb.Filter(func(req *restful.Request, resp *restful.Response, chain *restful.FilterChain) {
			rec.add(req.Request.Header.Get(ReqIDHeader), snapshot(req, kind, id))
			chain.ProcessFilter(req, resp)
		})
	}
	rb.To(func(req *restful.Request, resp *restful.Response) {
		rec.add(req.Request.Header.Get(ReqIDHeader), snapshot(req, "h", id))
		h(id, req, resp)
	})
	if !headDone {
		rb.Method(r.Method).Path(path)
	}
	if r.Style&StyleExtraBuild != 0 {
		_ = rb.Build()
	}
	return rb
}

// Build creates a fresh container holding the table. A panic while building is returned.
func Build(t model.TableSpec, opt *Options, rec *Recorder, h RouteHandler) (c *restful.Container, panicked interface{}) {
	defer func() {
		if r := recover(); r != nil {
			panicked = r
		}
	}()
	c = restful.NewContainer()
	if opt.SwapRouterFirst {
		if opt.Router == model.JSR311 {
			c.Router(restful.CurlyRouter{})
		} else {
			c.Router(restful.RouterJSR311{})
		}
	}
	if opt.Router == model.JSR311 {
		c.Router(restful.RouterJSR311{})
	} else {
		c.Router(restful.CurlyRouter{})
	}
	if opt.Recover {
		c.DoNotRecover(false)
	}
	if opt.Encoding {
		c.EnableContentEncoding(true)
	}
	if opt.Setup != nil {
		opt.Setup(c)
	}
	if opt.AsDefault {
		restful.DefaultContainer = c
	}
	if opt.OptionsFilter {
		if opt.AsDefault {
			c.Filter(restful.OPTIONSFilter())
		} else {
			c.Filter(c.OPTIONSFilter)
		}
	}
	for i := 0; i < opt.ContainerFilters; i++ {
		kind := "cf" + strconv.Itoa(i)
		c.Filter(func(req *restful.Request, resp *restful.Response, chain *restful.FilterChain) {
			rec.add(req.Request.Header.Get(ReqIDHeader), snapshot(req, kind, ""))
			chain.ProcessFilter(req, resp)
		})
	}
	opt.Services = nil
	for _, s := range t.Services {
		ws := NewService(s, rec, h)
		opt.Services = append(opt.Services, ws)
		c.Add(ws)
	}
	return c, nil
}

// Outcome is everything a client (and the recorder) saw of one dispatch.
type Outcome struct {
	Status int                 `json:"status"`
	Ran    []string            `json:"ran,omitempty"` // ids of the route functions that ran, in order
	Params map[string]string   `json:"params,omitempty"`
	Allow  []string            `json:"allow,omitempty"` // sorted distinct methods of the Allow header
	Panic  string              `json:"panic,omitempty"` // value of a panic that escaped the entry point
	Header map[string][]string `json:"-"`
	Body   []byte              `json:"-"`
	Events []Event             `json:"-"`
}

// Route returns the id of the single route function that ran ("" if none).
func (o Outcome) Route() string {
	if len(o.Ran) == 0 {
		return ""
	}
	return o.Ran[0]
}

// Key is a comparable summary of the framework-decided part of the outcome.
func (o Outcome) Key() string {
	ps := make([]string, 0, len(o.Params))
	for k, v := range o.Params {
		ps = append(ps, k+"="+v)
	}
	sort.Strings(ps)
	return fmt.Sprintf("status=%d ran=%v params=%v allow=%v panic=%q", o.Status, o.Ran, ps, o.Allow, o.Panic)
}

// ParseList splits a comma separated header value into its sorted distinct trimmed elements.
func ParseList(v string) []string {
	var out []string
	for _, p := range strings.Split(v, ",") {
		p = strings.TrimSpace(p)
		if p != "" {
			out = append(out, p)
		}
	}
	return model.SortedSet(out)
}

// NewHTTPRequest builds the *http.Request for a spec without any URL parsing in between.
func NewHTTPRequest(r model.ReqSpec, id string) *http.Request {
	hr := &http.Request{
		Method:     r.Method,
		URL:        &url.URL{Path: r.Path},
		Proto:      "HTTP/1.1",
		ProtoMajor: 1,
		ProtoMinor: 1,
		Header:     http.Header{},
		Host:       "example.com",
		RequestURI: r.Path,
	}
	if r.EscSlash > 0 {
		if raw := EscapeKthSlash(r.Path, r.EscSlash); raw != "" {
			hr.URL.RawPath = raw
			hr.RequestURI = raw
		}
	}
	for _, h := range r.Headers {
		hr.Header[h.K] = append(hr.Header[h.K], h.V)
	}
	hr.Header.Set(ReqIDHeader, id)
	if r.Body != "" {
		hr.Body = io.NopCloser(strings.NewReader(r.Body))
		if r.Chunked {
			hr.ContentLength = -1
			hr.TransferEncoding = []string{"chunked"}
		} else {
			hr.ContentLength = int64(len(r.Body))
			hr.Header.Set("Content-Length", strconv.Itoa(len(r.Body)))
		}
	} else {
		hr.Body = http.NoBody
		if r.ZeroCL {
			hr.Header.Set("Content-Length", "0")
		}
	}
	return hr
}

// EscapeKthSlash returns the escaped form of path in which the k-th slash after the leading one
// is written %2F ("" if there is no such slash or the result is no valid encoding of path).
func EscapeKthSlash(path string, k int) string {
	canon := (&url.URL{Path: path}).EscapedPath()
	n := 0
	for i := 1; i < len(canon); i++ {
		if canon[i] == '/' {
			n++
			if n == k {
				raw := canon[:i] + "%2F" + canon[i+1:]
				if (&url.URL{Path: path, RawPath: raw}).EscapedPath() == raw {
					return raw
				}
				return ""
			}
		}
	}
	return ""
}

// Via names the entry point.
const (
	ViaDispatch = "dispatch"
	ViaServe    = "serve"
)

// Do sends one request and collects the outcome.
func Do(c *restful.Container, rec *Recorder, r model.ReqSpec, via, id string) (o Outcome) {
	hr := NewHTTPRequest(r, id)
	w := httptest.NewRecorder()
	done := make(chan string, 1)
	go func() {
		pan := ""
		defer func() {
			if p := recover(); p != nil {
				pan = fmt.Sprint(p)
			}
			done <- pan
		}()
		if via == ViaServe {
			c.ServeHTTP(w, hr)
		} else {
			c.Dispatch(w, hr)
		}
	}()
	wd := time.NewTimer(RequestWatchdog)
	select {
	case o.Panic = <-done:
		wd.Stop()
	case <-wd.C:
		// "exactly one outcome" includes that there is one: a request that is still busy inside
		// go-restful after two looks at the goroutine dump does not terminate (or waits for a
		// lock the library left held). Anything else the dump shows proves nothing.
		if where := stuckInLibrary(); where != "" {
			// a machine that is busy enough can keep a goroutine off the processors for seconds:
			// a request that does come back within twice the time again was starved, not stuck
			grace := time.NewTimer(2 * RequestWatchdog)
			select {
			case p := <-done:
				grace.Stop()
				// (slow is not wrong: the outcome is judged like any other)
				o.Panic = p
			case <-grace.C:
				o.Panic = "DID NOT RETURN within " + (3 * RequestWatchdog).String() + ": a goroutine is still in " + where
				// the verdict stands; while rapid shrinks the case there is no need to wait that long again
				RequestWatchdog, stuckPause = 2*time.Second, 500*time.Millisecond
				return o
			}
		} else {
			// starved, not stuck: wait for it and go on with what it answered (a half-filled outcome
			// must never reach an oracle; should it never come, the part's own time limit ends the
			// run as inconclusive)
			o.Panic = <-done
		}
	}
	res := w.Result()
	o.Status = res.StatusCode
	o.Header = res.Header
	o.Body = w.Body.Bytes()
	if a, ok := res.Header["Allow"]; ok {
		o.Allow = ParseList(strings.Join(a, ","))
	}
	o.Events = rec.Take(id)
	for _, e := range o.Events {
		if e.Kind == "h" {
			o.Ran = append(o.Ran, e.Route)
			o.Params = e.Params
		}
	}
	return o
}

// RequestWatchdog bounds one request in Do (requests take microseconds).
var RequestWatchdog = 20 * time.Second

var stuckPause = 3 * time.Second

var libFrame = regexp.MustCompile(`github\.com/emicklei/go-restful/v3\.[^\n(]*`)

// stuckInLibrary looks at all goroutines twice, three seconds apart, and names the go-restful
// function a goroutine (not created by the library's own tests) is in both times.
func stuckInLibrary() string {
	look := func() map[string]string {
		buf := make([]byte, 8<<20)
		buf = buf[:runtime.Stack(buf, true)]
		m := map[string]string{}
		for _, g := range strings.Split(string(buf), "\n\n") {
			head := g
			if i := strings.Index(g, "\n"); i > 0 {
				head = g[:i]
			}
			f := strings.Fields(head)
			if len(f) < 2 {
				continue
			}
			// the innermost frame outside the standard library decides whose code is running:
			// a route function or filter of the harness that waits on purpose is not the library
			for _, line := range strings.Split(g, "\n")[1:] {
				if strings.HasPrefix(line, "\t") || strings.HasPrefix(line, "created by") {
					continue
				}
				first := line
				if i := strings.Index(first, "/"); i >= 0 {
					first = first[:i]
				}
				if !strings.HasPrefix(line, "verif/") && (!strings.Contains(first, ".") || !strings.Contains(line, "/")) {
					continue // standard library (runtime., sync., regexp., net/http., ...)
				}
				if fr := libFrame.FindString(line); fr != "" {
					m[f[1]] = fr // goroutine id -> go-restful function
				}
				break
			}
		}
		return m
	}
	a := look()
	time.Sleep(stuckPause)
	b := look()
	for id, fr := range a {
		if b[id] != "" {
			return fr
		}
	}
	return ""
}

var (
	inconclusiveMu    sync.Mutex
	inconclusiveNotes []string
)

func noteInconclusive(s string) {
	inconclusiveMu.Lock()
	inconclusiveNotes = append(inconclusiveNotes, s)
	inconclusiveMu.Unlock()
}

// TakeInconclusive returns (and forgets) the watchdog expiries that could not be turned into a verdict.
func TakeInconclusive() []string {
	inconclusiveMu.Lock()
	defer inconclusiveMu.Unlock()
	n := inconclusiveNotes
	inconclusiveNotes = nil
	return n
}
