package harness

import (
	"bytes"
	"compress/gzip"
	"compress/zlib"
	"fmt"
	"sync"
	"sync/atomic"

	restful "github.com/emicklei/go-restful/v3"
)

// Ledger is a CompressorProvider that wraps a real provider and keeps an acquire/release
// ledger by pointer identity. It never holds its own lock while calling the wrapped provider
// (the sync.Pool New functions re-enter the current provider).
type Ledger struct {
	Inner restful.CompressorProvider

	mu       sync.Mutex
	held     map[interface{}]string
	released map[interface{}]bool
	problems []string

	Acquires int64
	Releases int64
	// UsedAfterRelease counts writes that reached a writer after it had been released.
	UsedAfterRelease int64
}

// NewLedger wraps inner.
func NewLedger(inner restful.CompressorProvider) *Ledger {
	return &Ledger{Inner: inner, held: map[interface{}]string{}, released: map[interface{}]bool{}}
}

type trap struct{ l *Ledger }

func (t trap) Write(p []byte) (int, error) {
	if len(p) > 0 {
		atomic.AddInt64(&t.l.UsedAfterRelease, 1)
	}
	return len(p), nil
}

func (l *Ledger) acquire(o interface{}, kind string) {
	l.mu.Lock()
	defer l.mu.Unlock()
	l.Acquires++
	if k, ok := l.held[o]; ok {
		l.problems = append(l.problems, fmt.Sprintf("provider handed out a %s that is still in use (%p, held as %s)", kind, o, k))
	}
	l.held[o] = kind
	delete(l.released, o)
}

func (l *Ledger) release(o interface{}, kind string) bool {
	l.mu.Lock()
	defer l.mu.Unlock()
	l.Releases++
	if _, ok := l.held[o]; !ok {
		if l.released[o] {
			l.problems = append(l.problems, fmt.Sprintf("%s released twice (%p)", kind, o))
		} else {
			l.problems = append(l.problems, fmt.Sprintf("%s released that was never acquired (%p)", kind, o))
		}
		return false
	}
	delete(l.held, o)
	l.released[o] = true
	return true
}

func (l *Ledger) AcquireGzipWriter() *gzip.Writer {
	w := l.Inner.AcquireGzipWriter()
	l.acquire(w, "gzip.Writer")
	return w
}

func (l *Ledger) ReleaseGzipWriter(w *gzip.Writer) {
	if l.release(w, "gzip.Writer") {
		// the interface obliges users to Reset an acquired writer before use, so re-targeting
		// a released one at a trap is legal and exposes any later use
		w.Reset(trap{l})
	}
	l.Inner.ReleaseGzipWriter(w)
}

func (l *Ledger) AcquireGzipReader() *gzip.Reader {
	r := l.Inner.AcquireGzipReader()
	l.acquire(r, "gzip.Reader")
	return r
}

// poison is a valid gzip stream; a released reader is re-targeted at it, so a user that still
// reads from the reader after releasing it gets these bytes instead of its own body (legal:
// whoever acquires a reader has to Reset it onto its own source before use).
var poison = func() []byte {
	var b bytes.Buffer
	w := gzip.NewWriter(&b)
	w.Write(bytes.Repeat([]byte("POISON: this gzip reader was read after it had been released. "), 200))
	w.Close()
	return b.Bytes()
}()

func (l *Ledger) ReleaseGzipReader(r *gzip.Reader) {
	if l.release(r, "gzip.Reader") {
		r.Reset(bytes.NewReader(poison))
	}
	l.Inner.ReleaseGzipReader(r)
}

func (l *Ledger) AcquireZlibWriter() *zlib.Writer {
	w := l.Inner.AcquireZlibWriter()
	l.acquire(w, "zlib.Writer")
	return w
}

func (l *Ledger) ReleaseZlibWriter(w *zlib.Writer) {
	if l.release(w, "zlib.Writer") {
		w.Reset(trap{l})
	}
	l.Inner.ReleaseZlibWriter(w)
}

// Held returns how many objects are currently acquired and not released.
func (l *Ledger) Held() int {
	l.mu.Lock()
	defer l.mu.Unlock()
	return len(l.held)
}

// Problems returns the invariant violations recorded so far.
func (l *Ledger) Problems() []string {
	l.mu.Lock()
	defer l.mu.Unlock()
	out := append([]string{}, l.problems...)
	if n := atomic.LoadInt64(&l.UsedAfterRelease); n > 0 {
		out = append(out, fmt.Sprintf("%d writes reached a compressor after it had been released", n))
	}
	return out
}

// ProviderFor creates the real provider named by kind: "pool", "bounded0", "bounded1", "bounded4".
func ProviderFor(kind string) restful.CompressorProvider {
	switch kind {
	case "bounded0":
		return restful.NewBoundedCachedCompressors(0, 0)
	case "bounded1":
		return restful.NewBoundedCachedCompressors(1, 1)
	case "bounded4":
		return restful.NewBoundedCachedCompressors(4, 4)
	case "bounded2-1":
		return restful.NewBoundedCachedCompressors(2, 1)
	case "bounded1-3":
		return restful.NewBoundedCachedCompressors(1, 3)
	}
	return restful.NewSyncPoolCompessors()
}
