// Package model restates, independently of go-restful, the declared semantics that the
// properties C01..C19 quantify over: path templates, when a route admits a request, what
// outcome a route table owes a request. Nothing in this package imports go-restful.
package model

import (
	"regexp"
	"strings"
	"sync"
)

// Segment kinds of a path template (DESIGN.md 3.1).
const (
	Lit   = "lit"   // users
	Var   = "var"   // {id}
	VarRe = "re"    // {id:[0-9]+}
	Affix = "affix" // pre{id}suf   (CurlyRouter only)
	Tail  = "tail"  // {rest:*}     (last segment only)
)

// Seg is one path segment of a template.
type Seg struct {
	Kind string `json:"k"`
	Lit  string `json:"lit,omitempty"`  // Lit: the literal text
	Name string `json:"name,omitempty"` // variable name
	Re   string `json:"re,omitempty"`   // VarRe: the regular expression
	Pre  string `json:"pre,omitempty"`  // Affix: literal before the variable
	Suf  string `json:"suf,omitempty"`  // Affix: literal after the variable
	Verb string `json:"verb,omitempty"` // custom verb ":verb" appended (last segment, CurlyRouter only)
}

// Template is a list of segments; the empty template is the path "/".
type Template []Seg

// IsVar tells whether the segment binds a variable.
func (s Seg) IsVar() bool { return s.Kind != Lit }

// String renders one segment the way a user writes it.
func (s Seg) String() string {
	var b string
	switch s.Kind {
	case Lit:
		b = s.Lit
	case Var:
		b = "{" + s.Name + "}"
	case VarRe:
		b = "{" + s.Name + ":" + s.Re + "}"
	case Affix:
		b = s.Pre + "{" + s.Name + "}" + s.Suf
	case Tail:
		b = "{" + s.Name + ":*}"
	}
	if s.Verb != "" {
		b += ":" + s.Verb
	}
	return b
}

// String renders the template with a leading slash; the empty template is "/".
func (t Template) String() string {
	if len(t) == 0 {
		return "/"
	}
	var sb strings.Builder
	for _, s := range t {
		sb.WriteByte('/')
		sb.WriteString(s.String())
	}
	return sb.String()
}

// Concat returns root followed by route segments (a new slice).
func Concat(root, route Template) Template {
	out := make(Template, 0, len(root)+len(route))
	out = append(out, root...)
	out = append(out, route...)
	return out
}

// VarNames lists the variable names of the template in order.
func (t Template) VarNames() []string {
	var n []string
	for _, s := range t {
		if s.IsVar() {
			n = append(n, s.Name)
		}
	}
	return n
}

// HasTail reports whether the template ends in a tail wildcard.
func (t Template) HasTail() bool { return len(t) > 0 && t[len(t)-1].Kind == Tail }

// Shape is the literal/variable skeleton of a template: literals verbatim, every variable "*".
func (t Template) Shape() string {
	var sb strings.Builder
	for _, s := range t {
		sb.WriteByte('/')
		if s.Kind == Lit {
			sb.WriteString("=" + s.Lit)
		} else {
			sb.WriteString("*")
		}
		if s.Verb != "" {
			sb.WriteString(":" + s.Verb)
		}
	}
	return sb.String()
}

// Tri is a three-valued truth value: the property text decides Y and N; U is left open.
type Tri int8

const (
	N Tri = iota
	U
	Y
)

func (t Tri) String() string { return [...]string{"N", "U", "Y"}[t] }

// And is the Kleene conjunction.
func And(a, b Tri) Tri {
	if a < b {
		return a
	}
	return b
}

var (
	reMu    sync.Mutex
	reCache = map[string][2]*regexp.Regexp{}
)

// regexTri: whole-segment match = Y, no match anywhere = N, a match strictly inside = U
// (CurlyRouter uses an unanchored match, RouterJSR311 embeds the expression anchored).
func regexTri(re, seg string) Tri {
	reMu.Lock()
	c, ok := reCache[re]
	if !ok {
		full, err1 := regexp.Compile("^(?:" + re + ")$")
		any, err2 := regexp.Compile(re)
		if err1 != nil || err2 != nil {
			full, any = nil, nil
		}
		c = [2]*regexp.Regexp{full, any}
		reCache[re] = c
	}
	reMu.Unlock()
	if c[0] == nil {
		return U
	}
	if c[0].MatchString(seg) {
		return Y
	}
	if c[1].MatchString(seg) {
		return U
	}
	return N
}

// customVerb splits "x:verb" into ("x","verb") when the text ends in ":letters".
var verbRe = regexp.MustCompile(`:([A-Za-z]+)$`)

// SplitVerb returns the segment without a trailing ":letters" custom verb and the verb.
func SplitVerb(seg string) (string, string) {
	m := verbRe.FindStringSubmatchIndex(seg)
	if m == nil {
		return seg, ""
	}
	return seg[:m[0]], seg[m[2]:m[3]]
}

// CleanPath reports whether the path starts with a slash and has no empty segment other
// than the one a single trailing slash produces. Only clean paths have a specified shape.
func CleanPath(p string) bool {
	if p == "/" {
		return true
	}
	if !strings.HasPrefix(p, "/") {
		return false
	}
	q := strings.TrimSuffix(p[1:], "/")
	if q == "" {
		return false // "//"
	}
	for _, s := range strings.Split(q, "/") {
		if s == "" {
			return false
		}
	}
	return true
}

// DecidablePath is weaker than CleanPath: empty segments in the interior of the path are
// allowed (they are segments like any other: no literal equals them, and whether a variable
// may bind one is left open). Only what the routers trim differently stays undecidable: no
// leading slash, several leading slashes, several trailing slashes.
func DecidablePath(p string) bool {
	if p == "/" {
		return true
	}
	if !strings.HasPrefix(p, "/") || strings.HasPrefix(p, "//") || strings.HasSuffix(p, "//") {
		return false
	}
	return true
}

// Segments splits a decidable path into its segments (interior ones may be empty); the boolean reports a trailing slash.
func Segments(p string) (segs []string, trailing bool) {
	if p == "/" || p == "" {
		return nil, false
	}
	q := strings.TrimPrefix(p, "/")
	if strings.HasSuffix(q, "/") {
		trailing = true
		q = strings.TrimSuffix(q, "/")
	}
	if q == "" {
		return nil, trailing
	}
	return strings.Split(q, "/"), trailing
}

// Binding is the result of matching a template against a path.
type Binding struct {
	Match  Tri
	Params map[string]string // expected parameter values (when Match != N)
	// Exact is false when some value is not pinned down by the statement (empty segment,
	// tail with trailing slash); such parameters are listed in Loose.
	Loose map[string]bool
}

// matchSeg matches one template segment against one URL segment.
func matchSeg(s Seg, seg string, last bool) (Tri, string) {
	res := Y
	val := seg
	if s.Verb != "" {
		base, verb := SplitVerb(seg)
		if verb != s.Verb {
			// a request verb that differs (or is missing) is refused. A verb that merely
			// ends in the declared one cannot occur: the verb is the maximal letter suffix.
			if !strings.HasSuffix(seg, ":"+s.Verb) {
				return N, ""
			}
			// ":xverb" ends in ":verb"? no: SplitVerb takes all trailing letters after the
			// last colon, so HasSuffix(":"+verb) with a different verb means "a:b:verb"-like
			// nesting; leave it unspecified.
			return U, ""
		}
		val = base
	}
	switch s.Kind {
	case Lit:
		if val != s.Lit {
			return N, ""
		}
		return res, ""
	case Var:
		if val == "" {
			return U, val
		}
		return res, val
	case VarRe:
		if val == "" {
			return And(U, regexTri(s.Re, val)), val
		}
		return And(res, regexTri(s.Re, val)), val
	case Affix:
		if len(val) < len(s.Pre)+len(s.Suf) || !strings.HasPrefix(val, s.Pre) || !strings.HasSuffix(val, s.Suf) {
			return N, ""
		}
		v := val[len(s.Pre) : len(val)-len(s.Suf)]
		if v == "" {
			return U, v
		}
		return res, v
	}
	return U, ""
}

// MatchPath decides whether the full template t matches the clean path p and what the
// variables must be bound to. For unclean paths the result is U with no bindings.
func MatchPath(t Template, p string) Binding {
	if !DecidablePath(p) {
		return Binding{Match: U}
	}
	segs, trailing := Segments(p)
	b := Binding{Match: Y, Params: map[string]string{}, Loose: map[string]bool{}}
	for i, s := range t {
		if s.Kind == Tail {
			rest := segs[min(i, len(segs)):]
			if i > len(segs) {
				return Binding{Match: N}
			}
			if len(rest) == 0 {
				// zero remaining segments: CurlyRouter refuses, RouterJSR311 accepts "…/"
				b.Match = And(b.Match, U)
				b.Params[s.Name] = ""
				b.Loose[s.Name] = true
				return b
			}
			b.Params[s.Name] = strings.Join(rest, "/")
			if trailing {
				b.Loose[s.Name] = true // one trailing slash is tolerated in the value
			}
			return b
		}
		if i >= len(segs) {
			return Binding{Match: N}
		}
		m, v := matchSeg(s, segs[i], i == len(t)-1)
		if m == N {
			return Binding{Match: N}
		}
		b.Match = And(b.Match, m)
		if s.IsVar() {
			b.Params[s.Name] = v
			if m == U {
				b.Loose[s.Name] = true
			}
		}
	}
	if len(segs) != len(t) {
		return Binding{Match: N}
	}
	return b
}

// MatchPrefix decides whether a WebService root template claims the path, i.e. matches
// its first len(root) segments. Roots carry Lit, Var and VarRe segments only.
func MatchPrefix(root Template, p string) Tri {
	if !DecidablePath(p) {
		return U
	}
	segs, _ := Segments(p)
	if len(root) > len(segs) {
		return N
	}
	res := Y
	for i, s := range root {
		m, _ := matchSeg(s, segs[i], false)
		if m == N {
			return N
		}
		res = And(res, m)
	}
	return res
}

// Substitute renders the template with the given values; used for the C04 round trip.
func Substitute(t Template, vals map[string]string) string {
	if len(t) == 0 {
		return "/"
	}
	var sb strings.Builder
	for _, s := range t {
		sb.WriteByte('/')
		switch s.Kind {
		case Lit:
			sb.WriteString(s.Lit)
		case Affix:
			sb.WriteString(s.Pre + vals[s.Name] + s.Suf)
		default:
			sb.WriteString(vals[s.Name])
		}
		if s.Verb != "" {
			sb.WriteString(":" + s.Verb)
		}
	}
	return sb.String()
}

// ParseTemplate reads a template the way a user writes it ("/users/{id:[0-9]+}/x:run").
// Variable names are taken from the text. It understands the grammar of DESIGN.md 3.1 only.
func ParseTemplate(s string) Template {
	s = strings.Trim(s, "/")
	if s == "" {
		return nil
	}
	var t Template
	parts := strings.Split(s, "/")
	for i, p := range parts {
		seg := Seg{}
		open, close := strings.Index(p, "{"), strings.LastIndex(p, "}")
		if open == -1 || close < open {
			base, verb := p, ""
			if i == len(parts)-1 {
				base, verb = SplitVerb(p)
			}
			seg = Seg{Kind: Lit, Lit: base, Verb: verb}
		} else {
			inner := p[open+1 : close]
			rest := p[close+1:]
			if i == len(parts)-1 && strings.HasPrefix(rest, ":") && verbRe.MatchString(rest) {
				seg.Verb = rest[1:]
				rest = ""
			}
			name, re := inner, ""
			if c := strings.Index(inner, ":"); c >= 0 {
				name, re = inner[:c], inner[c+1:]
			}
			switch {
			case re == "*":
				seg.Kind, seg.Name = Tail, name
			case re != "":
				seg.Kind, seg.Name, seg.Re = VarRe, name, re
			case open > 0 || rest != "":
				seg.Kind, seg.Name, seg.Pre, seg.Suf = Affix, name, p[:open], rest
			default:
				seg.Kind, seg.Name = Var, name
			}
		}
		t = append(t, seg)
	}
	return t
}
