package model

import (
	"reflect"
	"testing"
)

// Table-driven examples written from the property texts and the documentation, not from the
// implementation: they pin the reference model that the oracles of C01-C04, C17 and C18 trust.

func TestMatchPath(t *testing.T) {
	cases := []struct {
		tmpl, path string
		want       Tri
		params     map[string]string
	}{
		{"/users/{id}", "/users/42", Y, map[string]string{"id": "42"}},
		{"/users/{id}", "/users/42/", Y, map[string]string{"id": "42"}},
		{"/users/{id}", "/users", N, nil},
		{"/users/{id}", "/users/42/x", N, nil},
		{"/users/{id}", "/people/42", N, nil},
		{"/users/{id:[0-9]+}", "/users/42", Y, map[string]string{"id": "42"}},
		{"/users/{id:[0-9]+}", "/users/4x", U, nil},  // unanchored match only: left open
		{"/users/{id:[0-9]+}", "/users/abc", N, nil}, // no match anywhere
		{"/fixed/{var}.foo", "/fixed/barrr.foo", Y, map[string]string{"var": "barrr"}},
		{"/fixed/{var}.foo", "/fixed/ab", N, nil},
		{"/fixed/{var}.foo", "/fixed/.foo", U, nil}, // empty variable
		{"/fixed/foo_{var}_bar", "/fixed/foo_x_bar", Y, map[string]string{"var": "x"}},
		{"/fixed/foo_{var}_bar", "/fixed/foo_bar", N, nil}, // prefix and suffix overlap
		{"/fixed/{var:*}", "/fixed/remain/der", Y, map[string]string{"var": "remain/der"}},
		{"/fixed/{var:*}", "/fixed", U, nil}, // zero remaining segments
		{"/users/{id}:run", "/users/7:run", Y, map[string]string{"id": "7"}},
		{"/users/{id}:run", "/users/7:rerun", N, nil},
		{"/users/{id}:run", "/users/7", N, nil},
		{"/users/{id}:run", "/users/a:b:run", Y, map[string]string{"id": "a:b"}},
		{"/users/{id}", "/users/7:run", Y, map[string]string{"id": "7:run"}},
		{"/a/b", "/a//b", N, nil}, // an empty interior segment is a segment
		{"/a/{x}/b", "/a//b", U, nil},
		{"/", "/", Y, map[string]string{}},
		{"/", "/a", N, nil},
		{"/a", "//a", U, nil}, // what the routers trim differently stays open
		{"/a", "a", U, nil},
	}
	for _, c := range cases {
		b := MatchPath(ParseTemplate(c.tmpl), c.path)
		if b.Match != c.want {
			t.Errorf("MatchPath(%q, %q) = %v, want %v", c.tmpl, c.path, b.Match, c.want)
			continue
		}
		if c.params != nil && !reflect.DeepEqual(b.Params, c.params) {
			t.Errorf("MatchPath(%q, %q) params = %v, want %v", c.tmpl, c.path, b.Params, c.params)
		}
	}
}

func TestParseTemplateRoundTrip(t *testing.T) {
	for _, s := range []string{"/", "/a", "/a/{b}", "/a/{b:[0-9]+}/c", "/x/p_{v}", "/x/{v}.foo", "/x/foo_{v}_bar", "/a/{t:*}", "/a/{id}:run", "/a/b:stop", `/t/{at:\d+:\d+}`} {
		if got := ParseTemplate(s).String(); got != s {
			t.Errorf("ParseTemplate(%q).String() = %q", s, got)
		}
	}
}

func TestHeaderAtoms(t *testing.T) {
	if got := AcceptAtom([]string{"application/xml"}, "application/json"); got != N {
		t.Errorf("json not satisfiable from xml: %v", got)
	}
	if got := AcceptAtom(nil, "application/json"); got != N {
		t.Errorf("nothing produced: %v", got)
	}
	if got := AcceptAtom(nil, ""); got != Y {
		t.Errorf("no Accept header means */*: %v", got)
	}
	if got := AcceptAtom([]string{"application/xml"}, "text/html, */*;q=0.1"); got != Y {
		t.Errorf("*/* range: %v", got)
	}
	if got := AcceptAtom([]string{"application/xml"}, "APPLICATION/XML"); got != U {
		t.Errorf("case difference is left open: %v", got)
	}
	if got := AcceptAtom([]string{"application/xml"}, "application/*"); got != U {
		t.Errorf("partial wildcard is left open: %v", got)
	}
	if got := ConsumesAtom(nil, "POST", nil, "text/plain"); got != Y {
		t.Errorf("no Consumes admits everything: %v", got)
	}
	if got := ConsumesAtom([]string{"application/json"}, "POST", nil, "application/json; charset=utf-8"); got != Y {
		t.Errorf("parameters are ignored: %v", got)
	}
	if got := ConsumesAtom([]string{"application/json"}, "POST", nil, "text/plain"); got != N {
		t.Errorf("foreign type: %v", got)
	}
	if got := ConsumesAtom([]string{"application/json"}, "GET", nil, ""); got != Y {
		t.Errorf("GET without Content-Type: %v", got)
	}
	if got := ConsumesAtom([]string{"application/json"}, "POST", nil, ""); got != N {
		t.Errorf("POST without Content-Type counts as octet-stream: %v", got)
	}
	if got := ConsumesAtom([]string{"application/json"}, "DELETE", []string{"GET"}, ""); got != N {
		t.Errorf("the override replaces the default list: %v", got)
	}
}

func table(svcs ...ServiceSpec) TableSpec { return TableSpec{Services: svcs} }

func svc(root string, routes ...RouteSpec) ServiceSpec {
	return ServiceSpec{Root: ParseTemplate(root), Routes: routes}
}

func route(id, method, path string) RouteSpec {
	return RouteSpec{ID: id, Method: method, Path: ParseTemplate(path)}
}

func TestDecide(t *testing.T) {
	consumesJSON := route("post", "POST", "/{id}")
	consumesJSON.Consumes = []string{"application/json"}
	producesXML := route("xml", "GET", "/doc")
	producesXML.Produces = []string{"application/xml"}
	tb := table(
		svc("/users", route("list", "GET", ""), route("get", "GET", "/{id}"), route("me", "GET", "/me"), consumesJSON, producesXML),
		svc("/users/vip", route("vip", "GET", "/{id}")),
	)
	cases := []struct {
		req    ReqSpec
		status int
		route  string
		allow  []string
	}{
		{ReqSpec{Method: "GET", Path: "/users"}, 0, "list", nil},
		{ReqSpec{Method: "GET", Path: "/users/me"}, 0, "me", nil},     // literal beats variable
		{ReqSpec{Method: "GET", Path: "/users/vip/7"}, 0, "vip", nil}, // longer root beats its prefix
		{ReqSpec{Method: "GET", Path: "/nothing"}, 404, "", nil},
		{ReqSpec{Method: "GET", Path: "/users/1/2/3"}, 404, "", nil},
		{ReqSpec{Method: "DELETE", Path: "/users/7"}, 405, "", []string{"GET", "POST"}},
		{ReqSpec{Method: "POST", Path: "/users/7", Body: "x", Headers: []H{{"Content-Type", "text/plain"}}}, 415, "", nil},
		{ReqSpec{Method: "POST", Path: "/users/7"}, 415, "", nil}, // bodiless POST that cannot be served
		// a route without Produces satisfies only */* (or a missing Accept header)
		{ReqSpec{Method: "GET", Path: "/users/doc", Headers: []H{{"Accept", "application/json"}}}, 406, "", nil},
		{ReqSpec{Method: "GET", Path: "/users/doc", Headers: []H{{"Accept", "application/xml"}}}, 0, "xml", nil},
		{ReqSpec{Method: "POST", Path: "/users/7", Body: "{}", Headers: []H{{"Content-Type", "application/json"}}}, 0, "post", nil},
	}
	for _, router := range []string{Curly, JSR311} {
		for _, c := range cases {
			v := Decide(tb, c.req, router)
			if !v.Decisive() {
				t.Errorf("%s %s %s: not decisive: %+v", router, c.req.Method, c.req.Path, v.Set)
				continue
			}
			e := v.Set[0]
			if e.Status != c.status || e.Route != c.route || (c.allow != nil && !reflect.DeepEqual(e.AllowMin, c.allow)) {
				t.Errorf("%s %s %s: got %+v, want status=%d route=%q allow=%v", router, c.req.Method, c.req.Path, e, c.status, c.route, c.allow)
			}
		}
	}
	// 406: the only path/method match produces XML, the client wants JSON, and /users/{id}
	// also matches "doc" - so take a table without the variable sibling
	tb2 := table(svc("/users", producesXML))
	v := Decide(tb2, ReqSpec{Method: "GET", Path: "/users/doc", Headers: []H{{"Accept", "application/json"}}}, Curly)
	if !v.Decisive() || v.Set[0].Status != 406 {
		t.Errorf("406 expected: %+v", v.Set)
	}
	// incomparable templates: either route is admissible (D13 lives here)
	tb3 := table(svc("/", route("a", "GET", "/abc/{x}"), route("b", "GET", "/{y}/de")))
	v = Decide(tb3, ReqSpec{Method: "GET", Path: "/abc/de"}, Curly)
	if len(v.Set) != 2 {
		t.Errorf("two admissible outcomes expected: %+v", v.Set)
	}
}

func TestOrders(t *testing.T) {
	p := ParseTemplate
	if !RouteRefines(p("/a/b"), p("/a/{x}")) || RouteRefines(p("/a/{x}"), p("/a/b")) {
		t.Error("literal refines variable")
	}
	if RouteRefines(p("/a/{x}"), p("/a/{t:*}")) || RouteRefines(p("/a/b/c"), p("/a/{t:*}")) {
		t.Error("plain variable vs tail, and different lengths, are incomparable")
	}
	if !RouteRefines(p("/a/b"), p("/a/{t:*}")) {
		t.Error("literal refines a tail at the same position")
	}
	if RouteRefines(p("/a/b:run"), p("/a/{x}")) {
		t.Error("a verb against no verb is incomparable")
	}
	if !RootDominates(Curly, p("/a/b"), p("/a")) || !RootDominates(Curly, p("/a/b"), p("/a/{x}")) || RootDominates(Curly, p("/a/{x}"), p("/{y}/b")) {
		t.Error("curly root order")
	}
	if !RootDominates(JSR311, p("/a/b"), p("/a")) || RootDominates(JSR311, p("/a/b"), p("/a/{x}")) {
		t.Error("jsr311 root order: only literal prefix chains")
	}
}
