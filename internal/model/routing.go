package model

import (
	"fmt"
	"sort"
	"strings"
)

// Router names.
const (
	Curly  = "curly"
	JSR311 = "jsr311"
)

// Expect is one admissible outcome of a request.
type Expect struct {
	Status   int      `json:"status"`          // 0: a route function runs (status is the handler's)
	Route    string   `json:"route,omitempty"` // id of the route whose function runs
	AllowMin []string `json:"allow_min,omitempty"`
	AllowMax []string `json:"allow_max,omitempty"`
	Stage    string   `json:"stage"` // which stage of the rule produced it
}

func (e Expect) key() string {
	return fmt.Sprintf("%d|%s|%s|%s", e.Status, e.Route, strings.Join(e.AllowMin, ","), strings.Join(e.AllowMax, ","))
}

// Verdict is the set of admissible outcomes.
type Verdict struct {
	Unspecified bool     `json:"unspecified,omitempty"` // only totality can be asserted
	Set         []Expect `json:"set,omitempty"`
	UAtoms      int      `json:"u_atoms"`
	// PathCandidates counts routes whose full template matches the path (Y) in some matching service.
	PathCandidates int `json:"path_candidates"`
	// Eligible lists routes for which every atom is Y (in any service whose root matches).
	Eligible []string `json:"eligible,omitempty"`
}

// Decisive reports that exactly one outcome is admissible.
func (v Verdict) Decisive() bool {
	if v.Unspecified || len(v.Set) != 1 {
		return false
	}
	e := v.Set[0]
	return strings.Join(e.AllowMin, ",") == strings.Join(e.AllowMax, ",")
}

// Observed is what the harness saw.
type Observed struct {
	Status int
	Route  string // id of the route function that ran, "" if none
	Allow  []string
}

// Admits reports whether the observation is one of the admissible outcomes.
func (v Verdict) Admits(o Observed) bool {
	if v.Unspecified {
		return true
	}
	for _, e := range v.Set {
		if e.Status == 0 {
			if o.Route == e.Route {
				return true
			}
			continue
		}
		if o.Route != "" || o.Status != e.Status {
			continue
		}
		if e.Status != 405 {
			return true
		}
		got := map[string]bool{}
		for _, m := range o.Allow {
			got[m] = true
		}
		ok := true
		for _, m := range e.AllowMin {
			if !got[m] {
				ok = false
			}
		}
		max := map[string]bool{}
		for _, m := range e.AllowMax {
			max[m] = true
		}
		for m := range got {
			if !max[m] {
				ok = false
			}
		}
		if ok {
			return true
		}
	}
	return false
}

// RootDominates: under the router's documented specificity order root a strictly beats root b
// (both are known to match the request).
func RootDominates(router string, a, b Template) bool {
	if router == JSR311 {
		// only: a longer literal root beats its own literal prefix
		if len(a) <= len(b) {
			return false
		}
		for _, s := range a {
			if s.Kind != Lit {
				return false
			}
		}
		for i, s := range b {
			if s.Kind != Lit || s.Lit != a[i].Lit {
				return false
			}
		}
		return true
	}
	if len(a) < len(b) {
		return false
	}
	strict := len(a) > len(b)
	for i := range b {
		switch {
		case a[i].Kind == Lit && b[i].Kind == Lit:
			if a[i].Lit != b[i].Lit {
				return false
			}
		case a[i].Kind == Lit && b[i].Kind != Lit:
			strict = true
		case a[i].Kind != Lit && b[i].Kind != Lit:
		default:
			return false
		}
	}
	return strict
}

// RouteRefines: route template a is strictly more specific than b in the sense of C03:
// same number of segments, same verbs, a literal wherever b has the same literal or a
// variable, and at least one literal-over-variable position.
func RouteRefines(a, b Template) bool {
	if len(a) != len(b) {
		return false
	}
	strict := false
	for i := range a {
		if a[i].Verb != b[i].Verb {
			return false
		}
		switch {
		case a[i].Kind == Lit && b[i].Kind == Lit:
			if a[i].Lit != b[i].Lit {
				return false
			}
		case a[i].Kind == Lit && b[i].Kind != Lit:
			strict = true
		case a[i].Kind != Lit && b[i].Kind != Lit:
		default:
			return false
		}
	}
	return strict
}

type routeAtoms struct {
	svc, idx int
	id       string
	full     Template
	path     Tri
	cond     bool
	method   bool
	cons     Tri
	acc      Tri
}

const maxUAtoms = 12

// Decide computes the admissible outcomes of req on table under the given router.
func Decide(table TableSpec, req ReqSpec, router string) Verdict {
	if !DecidablePath(req.Path) {
		return Verdict{Unspecified: true}
	}
	hasBody := req.Body != ""
	ct := req.Header("Content-Type")
	acc := req.Header("Accept")

	roots := make([]Tri, len(table.Services))
	var routes []routeAtoms
	for i, s := range table.Services {
		roots[i] = MatchPrefix(s.Root, req.Path)
		if roots[i] == N {
			continue
		}
		for j, r := range s.Routes {
			ra := routeAtoms{svc: i, idx: j, id: r.ID, full: s.Full(r)}
			ra.path = MatchPath(ra.full, req.Path).Match
			ra.cond = CondsHold(r.Conds, req)
			ra.method = r.Method == req.Method
			ra.cons = ConsumesAtom(s.EffConsumes(r), r.Method, r.NoCT, ct)
			ra.acc = AcceptAtom(s.EffProduces(r), acc)
			routes = append(routes, ra)
		}
	}

	// collect U atoms
	type atomRef struct {
		kind string // root, path, cons, acc
		i    int
	}
	var us []atomRef
	for i, t := range roots {
		if t == U {
			us = append(us, atomRef{"root", i})
		}
	}
	for i, r := range routes {
		if r.path == U {
			us = append(us, atomRef{"path", i})
		}
		if r.path != N && r.cond && r.method {
			if r.cons == U {
				us = append(us, atomRef{"cons", i})
			}
			if r.acc == U {
				us = append(us, atomRef{"acc", i})
			}
		}
	}
	v := Verdict{UAtoms: len(us)}
	for _, r := range routes {
		if roots[r.svc] == Y && r.path == Y {
			v.PathCandidates++
			if r.cond && r.method && r.cons == Y && r.acc == Y {
				v.Eligible = append(v.Eligible, r.id)
			}
		}
	}
	if len(us) > maxUAtoms {
		v.Unspecified = true
		return v
	}

	seen := map[string]bool{}
	add := func(e Expect) {
		e.AllowMin = SortedSet(e.AllowMin)
		e.AllowMax = SortedSet(e.AllowMax)
		if e.Status != 405 {
			e.AllowMin, e.AllowMax = nil, nil
		}
		k := e.key()
		if !seen[k] {
			seen[k] = true
			v.Set = append(v.Set, e)
		}
	}

	for mask := 0; mask < 1<<len(us); mask++ {
		rootB := make([]bool, len(roots))
		for i, t := range roots {
			rootB[i] = t == Y
		}
		pathB := make([]bool, len(routes))
		consB := make([]bool, len(routes))
		accB := make([]bool, len(routes))
		for i, r := range routes {
			pathB[i], consB[i], accB[i] = r.path == Y, r.cons == Y, r.acc == Y
		}
		for b, a := range us {
			val := mask&(1<<b) != 0
			switch a.kind {
			case "root":
				rootB[a.i] = val
			case "path":
				pathB[a.i] = val
			case "cons":
				consB[a.i] = val
			case "acc":
				accB[a.i] = val
			}
		}
		// 1. matching services
		var ms []int
		for i, ok := range rootB {
			if ok {
				ms = append(ms, i)
			}
		}
		if len(ms) == 0 {
			add(Expect{Status: 404, Stage: "404-noservice"})
			continue
		}
		// 2. maximal services
		for _, si := range ms {
			dominated := false
			for _, sj := range ms {
				if sj != si && RootDominates(router, table.Services[sj].Root, table.Services[si].Root) {
					dominated = true
				}
			}
			if dominated {
				continue
			}
			// 3. routes matching the path
			var P, C, M, CT, A []int
			for i, r := range routes {
				if r.svc == si && pathB[i] {
					P = append(P, i)
				}
			}
			if len(P) == 0 {
				add(Expect{Status: 404, Stage: "404-noroute"})
				continue
			}
			for _, i := range P {
				if routes[i].cond {
					C = append(C, i)
				}
			}
			if len(C) == 0 {
				add(Expect{Status: 404, Stage: "404-cond"})
				continue
			}
			for _, i := range C {
				if routes[i].method {
					M = append(M, i)
				}
			}
			if len(M) == 0 {
				e := Expect{Status: 405, Stage: "405"}
				for _, i := range C {
					e.AllowMin = append(e.AllowMin, table.Services[si].Routes[routes[i].idx].Method)
				}
				for _, i := range P {
					e.AllowMax = append(e.AllowMax, table.Services[si].Routes[routes[i].idx].Method)
				}
				add(e)
				continue
			}
			for _, i := range M {
				if consB[i] {
					CT = append(CT, i)
				}
			}
			if len(CT) == 0 && hasBody {
				add(Expect{Status: 415, Stage: "415-body"})
				continue
			}
			for _, i := range CT {
				if accB[i] {
					A = append(A, i)
				}
			}
			if len(A) == 0 {
				if !hasBody && (req.Method == "POST" || req.Method == "PUT" || req.Method == "PATCH") {
					add(Expect{Status: 415, Stage: "415-bodiless"})
				} else {
					add(Expect{Status: 406, Stage: "406"})
				}
				continue
			}
			for _, i := range A {
				refined := false
				for _, j := range A {
					if j != i && RouteRefines(routes[j].full, routes[i].full) {
						refined = true
					}
				}
				if !refined {
					add(Expect{Status: 0, Route: routes[i].id, Stage: "ran"})
				}
			}
		}
	}
	sort.Slice(v.Set, func(i, j int) bool { return v.Set[i].key() < v.Set[j].key() })
	return v
}
