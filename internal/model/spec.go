package model

import (
	"sort"
	"strings"
)

// Cond is a pure If-condition on a request header: header H must equal V.
type Cond struct {
	Header string `json:"h"`
	Value  string `json:"v"`
}

// RouteSpec declares one route (relative to its service).
type RouteSpec struct {
	ID       string   `json:"id"` // unique within the table, also used as Doc
	Method   string   `json:"method"`
	Path     Template `json:"path"`
	Consumes []string `json:"consumes,omitempty"`
	Produces []string `json:"produces,omitempty"`
	Conds    []Cond   `json:"conds,omitempty"`
	NoCT     []string `json:"noct,omitempty"` // AllowedMethodsWithoutContentType
	Enc      *bool    `json:"enc,omitempty"`  // ContentEncodingEnabled override
	NFilters int      `json:"nfilters,omitempty"`
	// PathForm: how the relative path is written in the builder call; the template is the same.
	// 0 "/a/b" (or "" for the empty path), 1 trailing slash "/a/b/" ("/" for the empty path),
	// 2 no leading slash "a/b", 3 both "a/b/"
	PathForm int `json:"path_form,omitempty"`
	// Late: the route was registered after the WebService's default media types were changed
	// (it inherits Consumes2/Produces2 instead of Consumes/Produces)
	Late bool `json:"late,omitempty"`
	// Style: the way the declaration is written with the RouteBuilder (a bit set, see
	// harness.Style…); the declaration itself is the same for every value.
	Style int `json:"style,omitempty"`
}

// ServiceSpec declares one WebService.
type ServiceSpec struct {
	Root     Template    `json:"root"`
	Consumes []string    `json:"consumes,omitempty"`
	Produces []string    `json:"produces,omitempty"`
	Routes   []RouteSpec `json:"routes"`
	Dynamic  bool        `json:"dynamic,omitempty"`
	NFilters int         `json:"nfilters,omitempty"`
	// RootForm: 0 "/a/b" ("/" for the empty root), 1 trailing slash "/a/b/", 2 (empty root only)
	// Path() is never called: the root path is set lazily by Container.Add
	RootForm int `json:"root_form,omitempty"`
	// Consumes2/Produces2: the defaults after ws.Consumes(...)/ws.Produces(...) were called a
	// second time; routes marked Late inherit these. HasLate tells whether that happened at all.
	Consumes2 []string `json:"consumes2,omitempty"`
	Produces2 []string `json:"produces2,omitempty"`
	// Docs: the WebService also carries documentation-only calls (ApiVersion, Doc, Param,
	// TypeNameHandler), which declare nothing.
	Docs bool `json:"docs,omitempty"`
}

// TableSpec is a whole route table.
type TableSpec struct {
	Services []ServiceSpec `json:"services"`
}

// H is one request header.
type H struct {
	K string `json:"k"`
	V string `json:"v"`
}

// ReqSpec is one request. Body=="" means no body.
type ReqSpec struct {
	Method  string `json:"method"`
	Path    string `json:"path"`
	Headers []H    `json:"headers,omitempty"`
	Body    string `json:"body,omitempty"`
	// ZeroCL sends an explicit "Content-Length: 0" on a bodiless request.
	ZeroCL bool `json:"zerocl,omitempty"`
	// Chunked: the body's length is not declared (chunked transfer coding: ContentLength -1, no
	// Content-Length header); a body all the same
	Chunked bool `json:"chunked,omitempty"`
	// EscSlash: k > 0 sends the k-th slash behind the leading one percent-encoded on the
	// request line (URL.RawPath is set; URL.Path stays what it is)
	EscSlash int `json:"esc_slash,omitempty"`
}

// Header returns the first value of the header (case-sensitive canonical keys are used throughout).
func (r ReqSpec) Header(k string) string {
	for _, h := range r.Headers {
		if h.K == k {
			return h.V
		}
	}
	return ""
}

// EffConsumes is the route's Consumes list after the service default was applied.
func (s ServiceSpec) EffConsumes(r RouteSpec) []string {
	if len(r.Consumes) == 0 {
		if r.Late {
			return s.Consumes2
		}
		return s.Consumes
	}
	return r.Consumes
}

// EffProduces is the route's Produces list after the service default was applied.
func (s ServiceSpec) EffProduces(r RouteSpec) []string {
	if len(r.Produces) == 0 {
		if r.Late {
			return s.Produces2
		}
		return s.Produces
	}
	return r.Produces
}

// Full is the route's full template (root + route path).
func (s ServiceSpec) Full(r RouteSpec) Template { return Concat(s.Root, r.Path) }

// FindRoute looks a route up by id.
func (t TableSpec) FindRoute(id string) (ServiceSpec, RouteSpec, bool) {
	for _, s := range t.Services {
		for _, r := range s.Routes {
			if r.ID == id {
				return s, r, true
			}
		}
	}
	return ServiceSpec{}, RouteSpec{}, false
}

// ---------------------------------------------------------------------------------------
// header atoms

func splitMedia(h string) []string {
	var out []string
	for _, part := range strings.Split(h, ",") {
		if i := strings.Index(part, ";"); i >= 0 {
			part = part[:i]
		}
		out = append(out, part)
	}
	return out
}

func trimSP(s string) string { return strings.Trim(s, " ") }

// mediaEq compares a header element with a declared media type: Y on equality after
// SP-trimming, U when they are equal only up to case or other whitespace, else N.
func mediaEq(elem, declared string) Tri {
	if trimSP(elem) == declared {
		return Y
	}
	if strings.EqualFold(strings.TrimSpace(elem), strings.TrimSpace(declared)) {
		return U
	}
	return N
}

var idempotentNoCT = map[string]bool{"GET": true, "HEAD": true, "OPTIONS": true, "DELETE": true, "TRACE": true}

// ConsumesAtom decides whether the Content-Type header is admitted by the Consumes list.
func ConsumesAtom(consumes []string, routeMethod string, noCT []string, contentType string) Tri {
	if len(consumes) == 0 {
		return Y
	}
	if contentType == "" {
		if len(noCT) > 0 {
			for _, m := range noCT {
				if m == routeMethod {
					return Y
				}
			}
		} else if idempotentNoCT[routeMethod] {
			return Y
		}
		contentType = "application/octet-stream"
	}
	elems := splitMedia(contentType)
	res := N
	for _, c := range consumes {
		if c == "*/*" {
			return Y
		}
	}
	for _, e := range elems {
		for _, c := range consumes {
			m := mediaEq(e, c)
			if m == Y {
				if len(elems) == 1 {
					return Y
				}
				m = U // a comma separated Content-Type is not a documented input
			}
			if m > res {
				res = m
			}
		}
	}
	return res
}

// AcceptAtom decides whether the Accept header is satisfiable from the Produces list.
func AcceptAtom(produces []string, accept string) Tri {
	if accept == "" {
		return Y // no Accept header means */*
	}
	res := N
	for _, raw := range strings.Split(accept, ",") {
		e := raw
		params := ""
		if i := strings.Index(e, ";"); i >= 0 {
			e, params = e[:i], e[i+1:]
		}
		qzero := false
		for _, p := range strings.Split(params, ";") {
			kv := strings.SplitN(p, "=", 2)
			if len(kv) == 2 && strings.TrimSpace(kv[0]) == "q" {
				v := strings.TrimSpace(kv[1])
				if v == "0" || v == "0.0" || v == "0.00" || v == "0.000" {
					qzero = true
				}
			}
		}
		m := N
		te := trimSP(e)
		anyProduced := false
		for _, p := range produces {
			if p == "*/*" {
				anyProduced = true
			}
		}
		switch {
		case te == "*/*" || anyProduced:
			m = Y
		case strings.TrimSpace(e) == "*/*":
			m = U
		case strings.HasSuffix(strings.TrimSpace(e), "/*"):
			// partial wildcard: U when some produced type shares the main type
			main := strings.TrimSuffix(strings.TrimSpace(e), "*")
			for _, p := range produces {
				if strings.HasPrefix(strings.ToLower(p), strings.ToLower(main)) || p == "*/*" {
					m = U
				}
			}
		default:
			for _, p := range produces {
				if p == "*/*" {
					m = Y
					break
				}
				if x := mediaEq(e, p); x > m {
					m = x
				}
			}
		}
		if qzero && m != N {
			m = U
		}
		if m > res {
			res = m
		}
	}
	return res
}

// CondsHold evaluates the route's conditions on the request.
func CondsHold(conds []Cond, req ReqSpec) bool {
	for _, c := range conds {
		if req.Header(c.Header) != c.Value {
			return false
		}
	}
	return true
}

// SortedSet returns the sorted distinct elements.
func SortedSet(in []string) []string {
	m := map[string]bool{}
	for _, s := range in {
		m[s] = true
	}
	out := make([]string, 0, len(m))
	for s := range m {
		out = append(out, s)
	}
	sort.Strings(out)
	return out
}
