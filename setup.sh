#!/bin/sh
# Offline setup after a fresh restore: build the driver and warm the build cache.
cd "$(dirname "$0")" || exit 2
export GOFLAGS=-mod=mod GOPROXY=off GOSUMDB=off GOTOOLCHAIN=local
mkdir -p bin .build evidence found
go build -o bin/vcheck ./cmd/vcheck || exit 2
go test -c -vet=off -tags verif -o .build/props.test ./props || exit 2
# the reference model is pinned by its own unit tests (from the property texts)
go test -count=1 ./internal/model || exit 2
echo "setup ok"
