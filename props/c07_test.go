package props

import (
	"bytes"
	"compress/gzip"
	"compress/zlib"
	"fmt"
	"io"
	"net/http"
	"net/http/httptest"
	"strconv"
	"strings"
	"testing"

	restful "github.com/emicklei/go-restful/v3"
	"pgregory.net/rapid"

	"verif/internal/harness"
	"verif/internal/model"
	"verif/internal/stats"
)

// C07 – encoded responses decode to exactly what was written, and are labelled so.

func init() { registerPart("C07", "TestC07", jsonReplay(checkC07)) }

// Chunk describes one Write.
type Chunk struct {
	Size int  `json:"size"`
	Rand bool `json:"rand,omitempty"` // incompressible bytes
	Salt int  `json:"salt,omitempty"`
	// Flush: the writer is flushed after this chunk (Response.Flush / http.Flusher)
	Flush bool `json:"flush,omitempty"`
	// Str: written with io.WriteString (which prefers the writer's own WriteString, if it has one)
	Str bool `json:"str,omitempty"`
	// Raw: a route function writes this chunk on resp.ResponseWriter, the writer underneath the Response
	Raw bool `json:"raw,omitempty"`
	// Ent: a route function writes this chunk as an entity (Response.WriteAsJson of a string of
	// letters); the bytes are the JSON string, optionally followed by a line feed
	Ent bool `json:"ent,omitempty"`
}

func (c Chunk) entity() string {
	n := c.Size
	if n > 3000 {
		n = 3000
	}
	return "e" + strconv.Itoa(c.Salt) + strings.Repeat("x", n)
}

// lengthKeepingWriter does what net/http's response does with a declared Content-Length: once
// the header is on its way the declared number of body bytes is all the response takes; a write
// that goes beyond it is refused as a whole with http.ErrContentLength.
type lengthKeepingWriter struct {
	rec      *httptest.ResponseRecorder
	decided  bool
	declared int64 // -1: none
	written  int64
}

func (w *lengthKeepingWriter) Header() http.Header { return w.rec.Header() }
func (w *lengthKeepingWriter) decide() {
	if w.decided {
		return
	}
	w.decided, w.declared = true, -1
	if v := w.rec.Header().Get("Content-Length"); v != "" {
		if n, err := strconv.ParseInt(v, 10, 64); err == nil && n >= 0 {
			w.declared = n
		}
	}
}
func (w *lengthKeepingWriter) WriteHeader(s int) { w.decide(); w.rec.WriteHeader(s) }
func (w *lengthKeepingWriter) Write(p []byte) (int, error) {
	w.decide()
	w.written += int64(len(p))
	if w.declared >= 0 && w.written > w.declared {
		return 0, http.ErrContentLength
	}
	return w.rec.Write(p)
}
func (w *lengthKeepingWriter) WriteString(p string) (int, error) { return w.Write([]byte(p)) }
func (w *lengthKeepingWriter) Flush()                            { w.decide(); w.rec.Flush() }

func (c Chunk) bytes() []byte {
	b := make([]byte, c.Size)
	if c.Rand {
		x := uint32(c.Salt*2654435761 + 12345)
		for i := range b {
			x = x*1664525 + 1013904223
			b[i] = byte(x >> 24)
		}
		if len(b) > 1 {
			b[0], b[1] = 'R', 'N' // never a gzip/zlib magic
		}
		return b
	}
	pat := []byte("chunk-" + strconv.Itoa(c.Salt) + "-abcdefghij ")
	for i := range b {
		b[i] = pat[i%len(pat)]
	}
	return b
}

// C07Case is one response scenario.
type C07Case struct {
	Provider    string  `json:"provider"`
	ContainerOn bool    `json:"container_on"`
	RouteEnc    string  `json:"route_enc"` // "", on, off
	Target      string  `json:"target"`    // route, noroute, handle, handlewf, nested
	Via         string  `json:"via"`       // dispatch, serve
	AcceptEnc   string  `json:"accept_enc"`
	HasAE       bool    `json:"has_ae"`
	Preset      string  `json:"preset,omitempty"` // Content-Encoding the writer carries on arrival
	FilterPre   []Chunk `json:"filter_pre,omitempty"`
	FilterPost  []Chunk `json:"filter_post,omitempty"`
	HasFilter   bool    `json:"has_filter,omitempty"`
	Handler     []Chunk `json:"handler,omitempty"`
	PanicAfter  int     `json:"panic_after"` // -1: no panic; k: the handler panics after k chunks
	DefaultRec  bool    `json:"default_recover,omitempty"`
	ErrChunks   []Chunk `json:"err_chunks,omitempty"` // written by the service-error handler
	RecChunks   []Chunk `json:"rec_chunks,omitempty"` // written by the recover handler
	// FlipAfter: the container switch had the opposite value while services and handlers were
	// registered and got its final value afterwards (the setting in force at request time counts).
	FlipAfter bool `json:"flip_after,omitempty"`
	// NoFlusher: the writer the container is given implements nothing but http.ResponseWriter
	// (a Flush requested by a handler or filter then has nobody to go to)
	NoFlusher bool `json:"no_flusher,omitempty"`
	// ReuseBuilder: the RouteBuilder of the target route is used again afterwards for another
	// route with the opposite encoding setting (a built route keeps its own setting)
	ReuseBuilder bool `json:"reuse_builder,omitempty"`
	// KeepLength: the writer underneath treats a Content-Length header the way net/http does
	// (bytes beyond the declared length are refused)
	KeepLength bool `json:"keep_length,omitempty"`
	// Compact: PrettyPrintResponses is off (entities are written by the streaming encoder)
	Compact bool `json:"compact,omitempty"`
	// DefaultErr: routing errors are written by the container's own error writer (its text is
	// the library's; it must arrive labelled and decodable all the same)
	DefaultErr bool `json:"default_err,omitempty"`
}

// bareWriter hides every optional interface of the recorder.
type bareWriter struct{ w http.ResponseWriter }

func (b bareWriter) Header() http.Header         { return b.w.Header() }
func (b bareWriter) Write(p []byte) (int, error) { return b.w.Write(p) }
func (b bareWriter) WriteHeader(s int)           { b.w.WriteHeader(s) }

var aePool = []string{"gzip", "deflate", "gzip, deflate", "deflate, gzip", "deflate;q=1, gzip", "gzip;q=0.5", "br", "identity", "x-gzip", "", "*", "GZIP", "br, gzip", "zip", "defl"}

func genChunks(t *rapid.T, label string, max int) []Chunk {
	n := rapid.IntRange(0, max).Draw(t, label+"n")
	sizes := []int{0, 1, 10, 100, 1000, 5000, 70000}
	if thorough() {
		sizes = append(sizes, 262144)
	}
	var out []Chunk
	for i := 0; i < n; i++ {
		out = append(out, Chunk{Size: rapid.SampledFrom(sizes).Draw(t, label+"size"), Rand: rapid.Bool().Draw(t, label+"rand"), Salt: rapid.IntRange(0, 999).Draw(t, label+"salt"), Flush: rapid.IntRange(0, 4).Draw(t, label+"flush") == 0, Str: rapid.IntRange(0, 3).Draw(t, label+"str") == 0, Raw: rapid.IntRange(0, 7).Draw(t, label+"raw") == 0, Ent: rapid.IntRange(0, 5).Draw(t, label+"ent") == 0})
	}
	return out
}

func genC07(t *rapid.T) C07Case {
	c := C07Case{PanicAfter: -1}
	c.Provider = rapid.SampledFrom([]string{"pool", "bounded0", "bounded1", "bounded4"}).Draw(t, "provider")
	c.ContainerOn = rapid.Bool().Draw(t, "containeron")
	c.RouteEnc = rapid.SampledFrom([]string{"", "", "on", "off"}).Draw(t, "routeenc")
	c.Target = rapid.SampledFrom([]string{"route", "route", "route", "noroute", "handle", "handlewf", "nested", "nestedwf", "nesteddisp"}).Draw(t, "target")
	c.Via = harness.ViaServe
	if (c.Target == "route" || c.Target == "noroute") && rapid.Bool().Draw(t, "viadispatch") {
		c.Via = harness.ViaDispatch
	}
	c.HasAE = rapid.IntRange(0, 9).Draw(t, "hasae") > 0
	if c.HasAE {
		if rapid.IntRange(0, 9).Draw(t, "aecommon") < 5 {
			c.AcceptEnc = rapid.SampledFrom(aePool[:5]).Draw(t, "ae")
		} else if rapid.IntRange(0, 9).Draw(t, "aepool") > 0 {
			c.AcceptEnc = rapid.SampledFrom(aePool).Draw(t, "ae")
		} else {
			c.AcceptEnc = rapid.StringN(0, 12, 30).Draw(t, "aeany")
		}
	}
	if rapid.IntRange(0, 7).Draw(t, "preset") == 0 {
		c.Preset = rapid.SampledFrom([]string{"identity", "br", "gzip"}).Draw(t, "presetval")
	}
	c.HasFilter = rapid.Bool().Draw(t, "hasfilter")
	if c.HasFilter {
		c.FilterPre = genChunks(t, "pre", 2)
		c.FilterPost = genChunks(t, "post", 2)
	}
	c.Handler = genChunks(t, "handler", 4)
	if (c.Target == "route") && rapid.IntRange(0, 3).Draw(t, "panics") == 0 {
		c.PanicAfter = rapid.IntRange(0, len(c.Handler)).Draw(t, "panicafter")
		c.DefaultRec = rapid.IntRange(0, 4).Draw(t, "defaultrecover") == 0
	}
	c.ErrChunks = genChunks(t, "err", 2)
	c.RecChunks = genChunks(t, "rec", 2)
	c.FlipAfter = rapid.IntRange(0, 3).Draw(t, "flipafter") == 0
	c.NoFlusher = rapid.IntRange(0, 4).Draw(t, "noflusher") == 0
	c.ReuseBuilder = rapid.IntRange(0, 3).Draw(t, "reusebuilder") == 0
	c.KeepLength = rapid.Bool().Draw(t, "keeplength")
	c.Compact = rapid.IntRange(0, 3).Draw(t, "compact") == 0
	c.DefaultErr = c.Target == "noroute" && rapid.IntRange(0, 2).Draw(t, "defaulterr") == 0
	return c
}

type c07run struct {
	written bytes.Buffer // the bytes handed to the response, in order
	optNL   []int        // offsets in written at which the response may carry one extra line feed (end of an entity)
	refused []string     // writes the response did not take although nothing underneath ever fails
}

// matchesWritten compares a body with the bytes written, allowing one line feed at each of the
// optional positions.
func matchesWritten(got, want []byte, opt []int) bool {
	if len(opt) == 0 {
		return bytes.Equal(got, want)
	}
	p := opt[0]
	if p > len(want) || len(got) < p || !bytes.Equal(got[:p], want[:p]) {
		return false
	}
	rest := make([]int, 0, len(opt)-1)
	for _, o := range opt[1:] {
		rest = append(rest, o-p)
	}
	if matchesWritten(got[p:], want[p:], rest) {
		return true
	}
	return len(got) > p && got[p] == '\n' && matchesWritten(got[p+1:], want[p:], rest)
}

func (r *c07run) write(w io.Writer, chunks []Chunk) {
	for _, ch := range chunks {
		b := ch.bytes()
		if resp, ok := w.(*restful.Response); ok && ch.Raw {
			w = resp.ResponseWriter
		}
		var n int
		var err error
		if resp, ok := w.(*restful.Response); ok && ch.Ent && !ch.Raw {
			b = []byte(strconv.Quote(ch.entity()))
			if err = resp.WriteAsJson(ch.entity()); err == nil {
				n = len(b)
			}
			r.written.Write(b[:n])
			r.optNL = append(r.optNL, r.written.Len())
		} else {
			if ch.Str {
				n, err = io.WriteString(w, string(b))
			} else {
				n, err = w.Write(b)
			}
			if n > 0 {
				r.written.Write(b[:n])
			}
		}
		if err != nil || n != len(b) {
			r.refused = append(r.refused, fmt.Sprintf("%d bytes handed over, %d taken, error %v", len(b), n, err))
		}
		if ch.Flush {
			if f, ok := w.(http.Flusher); ok {
				f.Flush()
			}
		}
	}
}

func checkC07(c C07Case) (vs []*Violation) {
	st := stats.For("C07", "TestC07")
	defer harness.ResetGlobals()
	ledger := harness.NewLedger(harness.ProviderFor(c.Provider))
	restful.SetCompressorProvider(ledger)
	restful.PrettyPrintResponses = !c.Compact
	run := &c07run{}

	// Nobody can add a Content-Encoding once the header is on its way: an outer container that
	// does not encode itself must not have written anything before the inner one, which does,
	// gets the request (with HandleWithFilter the outer container's filters run around the inner
	// container). Writing first and announcing a coding afterwards is the caller's mistake, not
	// a response the statement speaks about.
	outerWrites := !((c.Target == "nestedwf" || c.Target == "nesteddisp") && !c.ContainerOn)
	outer := true
	newContainer := func(on bool) *restful.Container {
		isOuter := outer
		outer = false
		ct := restful.NewContainer()
		ct.EnableContentEncoding(on)
		if !c.DefaultErr {
			ct.ServiceErrorHandler(func(se restful.ServiceError, req *restful.Request, resp *restful.Response) {
				resp.WriteHeader(se.Code)
				run.write(resp, c.ErrChunks)
			})
		}
		if c.PanicAfter >= 0 {
			ct.DoNotRecover(false)
			if !c.DefaultRec {
				ct.RecoverHandler(func(p interface{}, w http.ResponseWriter) {
					w.WriteHeader(500)
					run.write(w, c.RecChunks)
				})
			}
		}
		if c.HasFilter {
			ct.Filter(func(req *restful.Request, resp *restful.Response, chain *restful.FilterChain) {
				if !isOuter || outerWrites {
					run.write(resp, c.FilterPre)
				}
				chain.ProcessFilter(req, resp)
				if !isOuter || outerWrites {
					// (nor can it append plain bytes behind the coded stream the inner container closed)
					run.write(resp, c.FilterPost)
				}
			})
		}
		return ct
	}
	addRoutes := func(ct *restful.Container, root string) {
		ws := new(restful.WebService)
		ws.Path(root)
		rb := ws.GET("/x")
		switch c.RouteEnc {
		case "on":
			rb.ContentEncodingEnabled(true)
		case "off":
			rb.ContentEncodingEnabled(false)
		}
		ws.Route(rb.To(func(req *restful.Request, resp *restful.Response) {
			for i, ch := range c.Handler {
				if c.PanicAfter == i {
					panic("generated panic")
				}
				run.write(resp, []Chunk{ch})
			}
			if c.PanicAfter == len(c.Handler) {
				panic("generated panic")
			}
		}))
		if c.ReuseBuilder {
			ws.Route(rb.Path("/decoy").ContentEncodingEnabled(c.RouteEnc != "on").To(func(req *restful.Request, resp *restful.Response) {}))
		}
		ct.Add(ws)
	}
	plain := http.HandlerFunc(func(w http.ResponseWriter, r *http.Request) { run.write(w, c.Handler) })

	first := c.ContainerOn
	if c.FlipAfter {
		first = !first
	}
	ct := newContainer(first)
	path := "/x"
	switch c.Target {
	case "route":
		addRoutes(ct, "/")
	case "noroute":
		addRoutes(ct, "/")
		path = "/missing"
	case "handle":
		ct.Handle("/h/", plain)
		path = "/h/a"
	case "handlewf":
		ct.HandleWithFilter("/hf/", plain)
		path = "/hf/a"
	case "nested", "nestedwf", "nesteddisp":
		// a second container below the first: mounted with Handle, with HandleWithFilter (the
		// writer it receives is then wrapped in a *Response), or through its Dispatch method
		inner := newContainer(true)
		addRoutes(inner, "/inner")
		switch c.Target {
		case "nested":
			ct.Handle("/inner/", inner)
		case "nestedwf":
			ct.HandleWithFilter("/inner/", inner)
		default:
			ct.HandleWithFilter("/inner/", http.HandlerFunc(inner.Dispatch))
		}
		path = "/inner/x"
	}
	ct.EnableContentEncoding(c.ContainerOn) // the value in force when the request arrives
	req := model.ReqSpec{Method: "GET", Path: path}
	if c.HasAE {
		req.Headers = append(req.Headers, model.H{K: "Accept-Encoding", V: c.AcceptEnc})
	}
	hr := harness.NewHTTPRequest(req, "0")
	w := httptest.NewRecorder()
	if c.Preset != "" {
		w.Header().Set("Content-Encoding", c.Preset)
	}
	var panicked interface{}
	func() {
		defer func() { panicked = recover() }()
		var hw http.ResponseWriter = w
		if c.KeepLength {
			hw = &lengthKeepingWriter{rec: w}
		}
		if c.NoFlusher {
			hw = bareWriter{hw}
		}
		if c.Via == harness.ViaServe {
			ct.ServeHTTP(hw, hr)
		} else {
			ct.Dispatch(hw, hr)
		}
	}()
	desc := fmt.Sprintf("provider=%s container=%v route=%q target=%s via=%s Accept-Encoding=%q(present=%v) preset=%q filter=%v panicAfter=%d", c.Provider, c.ContainerOn, c.RouteEnc, c.Target, c.Via, c.AcceptEnc, c.HasAE, c.Preset, c.HasFilter, c.PanicAfter)
	if panicked != nil {
		return []*Violation{viol("", "%s: panic escaped: %v", desc, panicked)}
	}
	body := w.Body.Bytes()
	ce := w.Result().Header["Content-Encoding"]
	want := run.written.Bytes()
	labels := []string{"target_" + c.Target, "via_" + c.Via}
	nontrivial := false

	arrival := []string(nil)
	if c.Preset != "" {
		arrival = []string{c.Preset}
	}
	applied := strings.Join(ce, "|") != strings.Join(arrival, "|")
	if c.DefaultRec && c.PanicAfter >= 0 {
		// the default recover handler writes a stack trace; its bytes are not known in advance
		want = nil
	}
	if c.DefaultErr && c.Target == "noroute" {
		want = nil // the library's own error text
		labels = append(labels, "default_error_writer")
	}
	if !applied {
		labels = append(labels, "not_encoded")
		if want != nil && !matchesWritten(body, want, run.optNL) {
			vs = append(vs, viol("", "%s: no coding was applied but the body (%d bytes) differs from the %d bytes written", desc, len(body), len(want)))
		}
	} else {
		labels = append(labels, "encoded")
		if c.Preset != "" {
			vs = append(vs, viol("", "%s: the writer carried Content-Encoding %q on arrival, the response has %q", desc, c.Preset, ce))
		}
		if len(ce) != 1 || (ce[0] != "gzip" && ce[0] != "deflate") {
			vs = append(vs, viol("", "%s: Content-Encoding is %q", desc, ce))
		} else {
			coding := ce[0]
			if !strings.Contains(c.AcceptEnc, coding) {
				vs = append(vs, viol("", "%s: coded with %s, which the request's Accept-Encoding does not mention", desc, coding))
			}
			// was encoding enabled for this request?
			enabled := c.ContainerOn
			nested := strings.HasPrefix(c.Target, "nested")
			if nested {
				enabled = true // outer or inner container switch
			}
			if c.Target == "route" || nested {
				if c.RouteEnc == "on" {
					enabled = true
				} else if c.RouteEnc == "off" {
					enabled = false
				}
			}
			if !enabled {
				sig := ""
				if c.Via == harness.ViaServe && c.RouteEnc == "off" && (c.ContainerOn || nested) {
					sig = "D5"
				}
				vs = append(vs, viol(sig, "%s: the response is %s-coded although encoding is not enabled for this request (the route's own setting overrides the container's)", desc, coding))
			}
			// the complete body decodes, once, to exactly the bytes written
			rd := bytes.NewReader(body)
			var plainBody []byte
			var err error
			if coding == "gzip" {
				var zr *gzip.Reader
				zr, err = gzip.NewReader(rd)
				if err == nil {
					zr.Multistream(false)
					plainBody, err = io.ReadAll(zr)
				}
			} else {
				var zr io.ReadCloser
				zr, err = zlib.NewReader(rd)
				if err == nil {
					plainBody, err = io.ReadAll(zr)
				}
			}
			if err != nil {
				vs = append(vs, viol("", "%s: the %s body (%d bytes) does not decode completely: %v", desc, coding, len(body), err))
			} else {
				if rd.Len() != 0 {
					vs = append(vs, viol("", "%s: %d bytes follow the end of the %s stream", desc, rd.Len(), coding))
				}
				if want != nil && !matchesWritten(plainBody, want, run.optNL) {
					vs = append(vs, viol("", "%s: decoding yields %d bytes, %d bytes were written (first difference at %d)", desc, len(plainBody), len(want), firstDiff(plainBody, want)))
				}
				nchunks := len(c.FilterPre) + len(c.FilterPost) + len(c.Handler)
				if nchunks >= 2 || c.PanicAfter >= 0 || c.Target == "noroute" || c.RouteEnc != "" {
					nontrivial = true
				}
			}
		}
	}
	for _, r := range run.refused {
		vs = append(vs, viol("", "%s: the response did not take everything that was written to it although the writer underneath accepts every byte: %s", desc, r))
	}
	if cl := w.Result().Header["Content-Length"]; len(cl) > 0 && !(c.DefaultRec && c.PanicAfter >= 0) {
		// nobody in this scenario sets a Content-Length; one that the framework chose has to be true
		if len(cl) != 1 || cl[0] != strconv.Itoa(len(body)) {
			vs = append(vs, viol("", "%s: the response announces Content-Length %q and carries %d body bytes", desc, cl, len(body)))
		}
	}
	if h := ledger.Held(); h != 0 {
		vs = append(vs, viol("", "%s: %d compressors are still held after the request", desc, h))
	}
	for _, p := range ledger.Problems() {
		vs = append(vs, viol("", "%s: %s", desc, p))
	}
	if c.PanicAfter >= 0 {
		labels = append(labels, "recovered_panic")
	}
	st.Case(c, nontrivial, labels...)
	return vs
}

func firstDiff(a, b []byte) int {
	n := min(len(a), len(b))
	for i := 0; i < n; i++ {
		if a[i] != b[i] {
			return i
		}
	}
	return n
}

func TestC07(t *testing.T) {
	rapid.Check(t, func(t *rapid.T) {
		harness.ResetGlobals()
		c := genC07(t)
		report(t, "C07", "TestC07", c, checkC07(c))
	})
}
