package props

import (
	"encoding/json"
	"encoding/xml"
	"fmt"
	"net/http/httptest"
	"os"
	"sort"
	"strconv"
	"strings"
	"sync"
	"sync/atomic"
	"testing"

	restful "github.com/emicklei/go-restful/v3"
	"pgregory.net/rapid"

	"verif/internal/harness"
	"verif/internal/model"
	"verif/internal/stats"
)

// C05 – the written entity's media type is produced by the route and best for Accept.
//
// The accessor registry cannot be emptied through the API, so the registered set is a
// per-process configuration (VERIF_REGISTRY=a|b|c) chosen by the driver.

func init() { registerPart("C05", "TestC05", jsonReplay(checkC05)) }

const (
	mimeVA = "application/vnd.v.a+json"
	mimeVB = "application/vnd.v.b+xml"
	mimeVC = "application/json-seq"               // contains the key application/json as a substring
	mimeVU = "application/vnd.Acme.Thing-v2+json" // a registration key with upper-case letters
)

var (
	registryOnce sync.Once
	registered   []string
)

func setupRegistry() []string {
	registryOnce.Do(func() {
		registered = []string{restful.MIME_JSON, restful.MIME_XML}
		cfg := os.Getenv("VERIF_REGISTRY")
		if cfg == "b" || cfg == "c" {
			restful.RegisterEntityAccessor(mimeVA, restful.NewEntityAccessorJSON(mimeVA))
			restful.RegisterEntityAccessor(mimeVB, restful.NewEntityAccessorXML(mimeVB))
			restful.RegisterEntityAccessor(mimeVU, restful.NewEntityAccessorJSON(mimeVU))
			registered = append(registered, mimeVA, mimeVB, mimeVU)
		}
		if cfg == "c" {
			restful.RegisterEntityAccessor(mimeVC, restful.NewEntityAccessorXML(mimeVC))
			registered = append(registered, mimeVC)
		}
	})
	return registered
}

func isXMLMime(m string) bool { return m == restful.MIME_XML || m == mimeVB || m == mimeVC }

// AccRange is one media range of a generated Accept header.
type AccRange struct {
	Media  string   `json:"media"`
	Q      string   `json:"q,omitempty"`      // "" = absent
	Before []string `json:"before,omitempty"` // parameters before q
	After  []string `json:"after,omitempty"`  // parameters after q
	WS     []int    `json:"ws,omitempty"`     // optional whitespace counts, consumed in order
}

// C05Case is one negotiation case.
type C05Case struct {
	Registry string     `json:"registry"`
	Produces []string   `json:"produces"`
	Default  string     `json:"default,omitempty"`
	Pretty   bool       `json:"pretty"`
	Accept   []AccRange `json:"accept"` // empty = no Accept header
	Via      string     `json:"via"`
	Call     string     `json:"call,omitempty"` // WriteEntity (default), WriteHeaderAndEntity, WriteServiceError
	// Split > 0: the ranges are sent as two Accept header lines, the second starting at range Split.
	Split int `json:"split,omitempty"`
	// BadQ: a range with a q-value that is not a number, to be inserted at position BadQPos for
	// the trace on/off relation (how such a range is treated is not specified; that it is treated
	// the same whether or not trace logging is enabled is)
	BadQ    string `json:"bad_q,omitempty"`
	BadQPos int    `json:"bad_q_pos,omitempty"`
	// TraceOffNil: trace logging is switched off with TraceLogger(nil) instead of EnableTracing(false)
	TraceOffNil bool `json:"trace_off_nil,omitempty"`
	// Late: Produces contains latePlaceholder, a type whose writer is registered only after the
	// route was built (each evaluation uses a fresh, unique type name: the registry cannot forget)
	Late bool `json:"late,omitempty"`
	// Burst: the request is also sent by eight goroutines at once, several times, each time with
	// an Accept value no request has carried before (an extra parameter that does not rank)
	Burst bool `json:"burst,omitempty"`
}

const latePlaceholder = "application/vnd.late+json"

var lateCounter, burstCounter int64

func (r AccRange) qval() float64 {
	if r.Q == "" {
		return 1
	}
	f, _ := strconv.ParseFloat(r.Q, 64)
	return f
}

// render prints the header; withWS=false strips all optional whitespace.
func renderAccept(rs []AccRange, withWS bool) string {
	var sb strings.Builder
	for i, r := range rs {
		wi := 0
		ws := func() string {
			if !withWS || wi >= len(r.WS) {
				wi++
				return ""
			}
			n := r.WS[wi]
			wi++
			return strings.Repeat(" ", n)
		}
		if i > 0 {
			sb.WriteString(",")
		}
		sb.WriteString(ws())
		sb.WriteString(r.Media)
		for _, p := range r.Before {
			sb.WriteString(ws() + ";" + ws() + p)
		}
		if r.Q != "" {
			sb.WriteString(ws() + ";" + ws() + "q" + ws() + "=" + ws() + r.Q)
		}
		for _, p := range r.After {
			sb.WriteString(ws() + ";" + ws() + p)
		}
		sb.WriteString(ws())
	}
	return sb.String()
}

// expectedType is the reference ranking of the statement over the produced types that have a
// registered writer. admitted: the router admits the header (some range names a produced type
// or is */*). decided: the ranking selects a type with a writer; when the header only ranks
// produced types without a writer the statement leaves the choice open (any produced type
// with a writer, never 406).
func expectedType(produces []string, rs []AccRange, isReg map[string]bool) (want string, admitted, decided bool) {
	firstReg := ""
	for _, p := range produces {
		if isReg[p] {
			firstReg = p
			break
		}
	}
	if len(rs) == 0 {
		return firstReg, true, true // no Accept header = */*
	}
	idx := make([]int, len(rs))
	for i := range idx {
		idx[i] = i
	}
	sort.SliceStable(idx, func(a, b int) bool { return rs[idx[a]].qval() > rs[idx[b]].qval() })
	for _, i := range idx {
		m := rs[i].Media
		if m == "*/*" {
			admitted = true
			if !decided {
				want, decided = firstReg, true
			}
			continue
		}
		for _, p := range produces {
			if p == m {
				admitted = true
				if isReg[p] && !decided {
					want, decided = p, true
				}
			}
		}
	}
	return want, admitted, decided
}

var foreignTypes = []string{"text/html", "image/*", "application/pdf", "image/webp"}

// produced types for which no entity writer is registered in any configuration
var unregisteredTypes = []string{"text/csv", "text/plain", "application/vnd.unreg+json", "application/vnd.unreg+xml"}

func isUnregisteredType(p string) bool {
	for _, u := range unregisteredTypes {
		if u == p {
			return true
		}
	}
	return false
}

// a default response content type nobody registered a writer for: as good as none
const unregisteredDefault = "application/yaml"

func genC05(t *rapid.T) C05Case {
	reg := setupRegistry()
	c := C05Case{Registry: os.Getenv("VERIF_REGISTRY")}
	if c.Registry == "" {
		c.Registry = "a"
	}
	n := rapid.IntRange(1, min(3, len(reg))).Draw(t, "nproduces")
	perm := rapid.Permutation(append([]string{}, reg...)).Draw(t, "producesorder")
	c.Produces = append([]string{}, perm[:n]...)
	if rapid.IntRange(0, 3).Draw(t, "unregistered") == 0 {
		// a produced type nobody registered a writer for, next to registered ones
		pos := rapid.IntRange(0, len(c.Produces)).Draw(t, "unregpos")
		u := rapid.SampledFrom(unregisteredTypes).Draw(t, "unregtype")
		c.Produces = append(c.Produces[:pos], append([]string{u}, c.Produces[pos:]...)...)
	}
	hasUnreg := len(c.Produces) > n
	if rapid.IntRange(0, 11).Draw(t, "late") == 0 {
		c.Late = true
		pos := rapid.IntRange(0, len(c.Produces)).Draw(t, "latepos")
		c.Produces = append(c.Produces[:pos], append([]string{latePlaceholder}, c.Produces[pos:]...)...)
	}
	c.Burst = rapid.IntRange(0, 15).Draw(t, "burst") == 0
	c.Default = rapid.SampledFrom([]string{"", "", restful.MIME_JSON, restful.MIME_XML}).Draw(t, "default")
	if hasUnreg {
		c.Default = ""
	}
	if rapid.IntRange(0, 5).Draw(t, "unregdefault") == 0 {
		c.Default = unregisteredDefault
	}
	c.Pretty = rapid.Bool().Draw(t, "pretty")
	c.Via = rapid.SampledFrom([]string{harness.ViaDispatch, harness.ViaServe}).Draw(t, "via")
	c.Call = rapid.SampledFrom([]string{"", "", "WriteHeaderAndEntity", "WriteServiceError"}).Draw(t, "call")
	splitDraw := rapid.IntRange(0, 5).Draw(t, "split")
	nr := rapid.SampledFrom([]int{0, 1, 1, 2, 2, 3, 3, 4, 5, 6, 9, 13, 14, 16, 20, 30, 33, 40, 48}).Draw(t, "nranges")
	qs := []string{"", "", "1", "0.9", "0.8", "0.8", "0.5", "0.1", "0.001", "1.0", "0.50", "0", "0.0"}
	// a long header may keep its only useful ranges for the end
	foreignHead := 0
	if nr >= 33 && rapid.Bool().Draw(t, "foreignhead") {
		foreignHead = nr - rapid.IntRange(1, 3).Draw(t, "usefultail")
	}
	for i := 0; i < nr; i++ {
		var r AccRange
		switch x := rapid.IntRange(0, 99).Draw(t, "rangekind"); {
		case i < foreignHead:
			r.Media = rapid.SampledFrom(foreignTypes).Draw(t, "foreign")
		case x < 50:
			r.Media = rapid.SampledFrom(c.Produces).Draw(t, "member")
		case x < 62:
			r.Media = "*/*"
		case x < 75:
			r.Media = rapid.SampledFrom(reg).Draw(t, "registered")
		default:
			r.Media = rapid.SampledFrom(foreignTypes).Draw(t, "foreign")
		}
		r.Q = rapid.SampledFrom(qs).Draw(t, "q")
		if rapid.IntRange(0, 9).Draw(t, "hasbefore") == 0 {
			r.Before = []string{rapid.SampledFrom([]string{"level=1", "charset=utf-8", "v=b3"}).Draw(t, "before")}
		}
		if rapid.IntRange(0, 9).Draw(t, "hasafter") == 0 {
			r.After = []string{rapid.SampledFrom([]string{"ext=1", "v=b3"}).Draw(t, "after")}
		}
		if rapid.IntRange(0, 2).Draw(t, "hasws") == 0 {
			r.WS = rapid.SliceOfN(rapid.IntRange(0, 2), 1, 12).Draw(t, "ws")
		}
		c.Accept = append(c.Accept, r)
	}
	if rapid.IntRange(0, 3).Draw(t, "badq") == 0 {
		c.BadQ = rapid.SampledFrom(c.Produces).Draw(t, "badqmedia") + rapid.SampledFrom([]string{";q=1e999", ";q=abc", ";q=-1e999", ";q=0x1p-2", ";q=", ";q=1.0.0", ";q=NaN", ";q=Inf", ";q", "; q", ";q;v=1", ";q=1=2"}).Draw(t, "badqval")
		c.BadQPos = rapid.IntRange(0, len(c.Accept)).Draw(t, "badqpos")
		c.TraceOffNil = rapid.Bool().Draw(t, "traceoffnil")
	}
	if splitDraw == 0 && len(c.Accept) >= 2 {
		c.Split = rapid.IntRange(1, len(c.Accept)-1).Draw(t, "splitat")
	}
	return c
}

type c05Entity struct {
	XMLName xml.Name `json:"-" xml:"E"`
	A       int64    `json:"a" xml:"a"`
	B       string   `json:"b" xml:"b"`
}

func checkC05(c C05Case) (vs []*Violation) {
	st := stats.For("C05", "TestC05")
	var labels0 []string
	reg := setupRegistry()
	isReg := setOf(reg)
	cur := os.Getenv("VERIF_REGISTRY")
	if cur == "" {
		cur = "a"
	}
	if c.Registry != cur {
		// a saved case of another registered-writer configuration: replayed by that process
		st.Label("replay_skipped_other_registry", 1)
		return nil
	}
	lateType := ""
	if c.Late {
		lateType = "application/vnd.late" + strconv.FormatInt(atomic.AddInt64(&lateCounter, 1), 10) + "+json"
		sub := func(m string) string { return strings.Replace(m, latePlaceholder, lateType, 1) }
		c.Produces = append([]string{}, c.Produces...)
		for i := range c.Produces {
			c.Produces[i] = sub(c.Produces[i])
		}
		c.Accept = append([]AccRange{}, c.Accept...)
		for i := range c.Accept {
			c.Accept[i].Media = sub(c.Accept[i].Media)
		}
		c.BadQ = sub(c.BadQ)
		isReg[lateType] = true
		labels0 = append(labels0, "writer_registered_after_the_route_was_built")
	}
	anyReg, hasUnregType := false, false
	for _, p := range c.Produces {
		if isReg[p] {
			anyReg = true
		} else if !isUnregisteredType(p) {
			return []*Violation{viol("", "case uses %q which is not registered in this process (VERIF_REGISTRY=%s)", p, os.Getenv("VERIF_REGISTRY"))}
		} else {
			hasUnregType = true
			labels0 = append(labels0, "produces_with_unregistered_type")
		}
	}
	if !anyReg || (hasUnregType && c.Default != "" && c.Default != unregisteredDefault) {
		// produced types without a writer are an extension of the stated quantifier; they are
		// only combined with an unset default content type, where the statement still decides
		return nil
	}
	restful.DefaultResponseContentType(c.Default)
	restful.PrettyPrintResponses = c.Pretty
	defer harness.ResetGlobals()
	value := c05Entity{A: 9007199254740993, B: "héllo <&> \"w\""}
	ct := restful.NewContainer()
	ws := new(restful.WebService)
	ws.Path("/")
	wantStatus := 200
	ws.Route(ws.GET("/x").Produces(c.Produces...).To(func(req *restful.Request, resp *restful.Response) {
		switch c.Call {
		case "WriteHeaderAndEntity":
			resp.WriteHeaderAndEntity(201, value)
		case "WriteServiceError":
			resp.WriteServiceError(409, restful.ServiceError{Code: 409, Message: "conflict"})
		default:
			resp.WriteEntity(value)
		}
	}))
	ct.Add(ws)
	if lateType != "" {
		restful.RegisterEntityAccessor(lateType, restful.NewEntityAccessorJSON(lateType))
	}
	switch c.Call {
	case "WriteHeaderAndEntity":
		wantStatus = 201
	case "WriteServiceError":
		wantStatus = 409
	}

	labels := append(labels0, "registry_"+c.Registry, "produces_"+strconv.Itoa(len(c.Produces)), "ranges_"+strconv.Itoa(min(len(c.Accept), 13)))
	want, admitted, decided := expectedType(c.Produces, c.Accept, isReg)
	if !admitted {
		st.Case(c, false, append(labels, "not_admitted_by_accept")...)
		// outside the domain of the entity-writer statement; the router must refuse (C02's business)
		return nil
	}
	if !decided {
		// the header ranks only produced types that have no writer: which representation comes
		// back is outside the stated domain; that the entity writer does not answer 406 to a
		// request the router admitted (some produced type does have a writer) is not
		h := renderAccept(c.Accept, true)
		if c.Call != "WriteServiceError" && model.AcceptAtom(c.Produces, h) == model.Y {
			o := harness.Do(ct, harness.NewRecorder(), model.ReqSpec{Method: "GET", Path: "/x", Headers: []model.H{{K: "Accept", V: h}}}, c.Via, "u")
			if o.Panic != "" {
				vs = append(vs, viol("", "Produces=%v Accept=%q: panic: %s", c.Produces, h, o.Panic))
			} else if o.Status == 406 {
				vs = append(vs, viol("", "Produces=%v Accept=%q default=%q: the router admitted the request and the entity writer answered 406", c.Produces, h, c.Default))
			}
		}
		st.Case(c, false, append(labels, "only_unregistered_types_ranked")...)
		return vs
	}
	if c.Call == "WriteServiceError" && isXMLMime(want) {
		// a ServiceError carries an http.Header, which encoding/xml cannot marshal: outside the codecs' domain
		st.Case(c, false, append(labels, "service_error_as_xml_skipped")...)
		return nil
	}
	zeroOnly := len(c.Accept) > 0
	for _, r := range c.Accept {
		sel := r.Media == "*/*"
		for _, p := range c.Produces {
			sel = sel || (p == r.Media && isReg[p])
		}
		if sel && r.qval() > 0 {
			zeroOnly = false
		}
	}
	if zeroOnly {
		labels = append(labels, "every_selecting_range_has_q_0")
	}
	hdrs := []string{renderAccept(c.Accept, true)}
	if stripped := renderAccept(c.Accept, false); stripped != hdrs[0] {
		hdrs = append(hdrs, stripped)
		labels = append(labels, "with_optional_whitespace")
	}
	rec := harness.NewRecorder()
	seen := map[string]bool{}
	for hi, h := range hdrs {
		req := model.ReqSpec{Method: "GET", Path: "/x"}
		if len(c.Accept) > 0 {
			req.Headers = []model.H{{K: "Accept", V: h}}
		}
		if model.AcceptAtom(c.Produces, h) == model.N {
			return []*Violation{viol("", "harness: generated header %q is not admitted by the model although the ranking finds %q", h, want)}
		}
		for rep := 0; rep < 12; rep++ {
			o := harness.Do(ct, rec, req, c.Via, strconv.Itoa(hi)+"."+strconv.Itoa(rep))
			where := "Produces=" + strings.Join(c.Produces, ",") + " default=" + strconv.Quote(c.Default) + " Accept=" + strconv.Quote(h)
			if o.Panic != "" {
				return append(vs, viol("", "%s: panic %s", where, o.Panic))
			}
			got := strings.Join(o.Header["Content-Type"], "|")
			seen[got+"/"+strconv.Itoa(o.Status)] = true
			if o.Status == 406 {
				vs = append(vs, viol("", "%s: the router admitted the request but the entity writer answered 406", where))
				break
			}
			if o.Status != wantStatus {
				vs = append(vs, viol("", "%s: status %d, the handler wrote %d", where, o.Status, wantStatus))
				break
			}
			inProduces := false
			for _, p := range c.Produces {
				if p == got && isReg[p] {
					inProduces = true
				}
			}
			if got != want && zeroOnly && inProduces {
				// every range that selects a produced type carries q=0: the smallest weight there
				// is, and "not acceptable" to RFC 7231. Which produced type answers is left open;
				// that it is a produced type with a writer (and not 406) is not.
				continue
			}
			if got != want {
				sig := ""
				if len(c.Accept) == 0 && c.Default != "" && got == c.Default && !inProduces {
					sig = "D4"
				}
				if !inProduces {
					vs = append(vs, viol(sig, "%s: Content-Type %q is not one of the route's Produces (expected %q)", where, got, want))
				} else {
					vs = append(vs, viol(sig, "%s: Content-Type %q, but the Accept header ranks %q highest", where, got, want))
				}
				break
			}
			// the body decodes with the codec the Content-Type names
			if c.Call == "WriteServiceError" {
				// a ServiceError carries an http.Header, which the XML codec cannot marshal: only the
				// negotiated type is judged, and a JSON body must decode
				if !isXMLMime(got) {
					var se restful.ServiceError
					if err := json.Unmarshal(o.Body, &se); err != nil || se.Code != 409 {
						vs = append(vs, viol("", "%s: body labelled %q does not decode to the service error (err=%v)", where, got, err))
						break
					}
				}
				continue
			}
			var back c05Entity
			var err error
			if isXMLMime(got) {
				err = xml.Unmarshal(o.Body, &back)
			} else {
				err = json.Unmarshal(o.Body, &back)
			}
			if err != nil || back.A != value.A || back.B != value.B {
				vs = append(vs, viol("", "%s: body labelled %q does not decode to the written value (err=%v, got %+v)", where, got, err, back))
				break
			}
		}
	}
	if c.Split > 0 && c.Split < len(c.Accept) && len(vs) == 0 && c.Call != "WriteServiceError" {
		// the ranges sent as two Accept header lines. Whether the second line counts is not
		// pinned down by the statement; router and entity writer must read the same header
		// though: the answer is the one for the first line alone or the one for the joined list.
		l1, l2 := renderAccept(c.Accept[:c.Split], true), renderAccept(c.Accept[c.Split:], true)
		req := model.ReqSpec{Method: "GET", Path: "/x"}
		hr := harness.NewHTTPRequest(req, "split")
		hr.Header["Accept"] = []string{l1, l2}
		w := httptest.NewRecorder()
		ct.Dispatch(w, hr)
		got := strings.Join(w.Header()["Content-Type"], "|")
		wantA, admittedA, decidedA := expectedType(c.Produces, c.Accept[:c.Split], isReg)
		okA := (!admittedA && w.Code == 406) || (admittedA && decidedA && w.Code == wantStatus && got == wantA) || (admittedA && !decidedA)
		okB := w.Code == wantStatus && got == want
		labels = append(labels, "two_accept_header_lines")
		if !okA && !okB {
			vs = append(vs, viol("", "Produces=%v, two Accept lines %q and %q: status %d Content-Type %q is neither the answer for the first line alone (admitted=%v type=%q) nor for the joined list (%q)", c.Produces, l1, l2, w.Code, got, admittedA, wantA, want))
		}
	}
	if c.BadQ != "" && len(vs) == 0 {
		// (until D18 was repaired this was restricted to headers with at least one well-formed
		// range: the fallback lookup over the whole header was not deterministic)
		// metamorphic: trace logging on/off must not change the representation, whatever the header
		parts := []string{}
		for i, r := range c.Accept {
			if i == c.BadQPos {
				parts = append(parts, c.BadQ)
			}
			parts = append(parts, renderAccept([]AccRange{r}, true))
		}
		if c.BadQPos >= len(c.Accept) {
			parts = append(parts, c.BadQ)
		}
		h := strings.Join(parts, ",")
		req := model.ReqSpec{Method: "GET", Path: "/x", Headers: []model.H{{K: "Accept", V: h}}}
		harness.SetTrace(true) // a configuration history: tracing was on before it is switched off
		harness.SetTraceOff(c.TraceOffNil)
		off := harness.Do(ct, rec, req, c.Via, "traceoff")
		harness.SetTrace(true)
		on := harness.Do(ct, rec, req, c.Via, "traceon")
		harness.SetTrace(false)
		a := strconv.Itoa(off.Status) + " " + strings.Join(off.Header["Content-Type"], "|")
		b := strconv.Itoa(on.Status) + " " + strings.Join(on.Header["Content-Type"], "|")
		labels = append(labels, "trace_relation_with_malformed_q")
		if a != b || off.Panic != on.Panic || on.Panic != "" {
			sig := ""
			if c.TraceOffNil && strings.Contains(off.Panic, "nil pointer") {
				sig = "D17"
			}
			vs = append(vs, viol(sig, "Produces=%v Accept=%q: answered {%s panic=%q} with trace logging off (TraceLogger(nil)=%v) and {%s panic=%q} with trace logging on", c.Produces, h, a, off.Panic, c.TraceOffNil, b, on.Panic))
		}
	}
	if c.BadQ != "" && len(vs) == 0 && len(c.Produces) >= 2 {
		// every range carries an unparsable q-value: which representation is "best" is not
		// specified then, but it is still one request, so it gets one representation (D18)
		suffix := c.BadQ[strings.Index(c.BadQ, ";"):]
		var parts []string
		for _, p := range c.Produces {
			parts = append(parts, p+suffix)
		}
		h := strings.Join(parts, ",")
		req := model.ReqSpec{Method: "GET", Path: "/x", Headers: []model.H{{K: "Accept", V: h}}}
		all := map[string]bool{}
		for rep := 0; rep < 10; rep++ {
			o := harness.Do(ct, rec, req, c.Via, "allbad."+strconv.Itoa(rep))
			all[strconv.Itoa(o.Status)+" "+strings.Join(o.Header["Content-Type"], "|")+" panic="+o.Panic] = true
		}
		labels = append(labels, "every_range_with_malformed_q")
		if len(all) > 1 {
			vs = append(vs, viol("", "Produces=%v Accept=%q: the same request got different answers: %v", c.Produces, h, all))
		}
		for k := range all {
			if !strings.HasSuffix(k, "panic=") && len(vs) == 0 {
				vs = append(vs, viol("", "Produces=%v Accept=%q: writing the entity panicked: %s", c.Produces, h, k))
			}
		}
	}
	if c.Burst && len(vs) == 0 && len(c.Accept) > 0 && c.Call != "WriteServiceError" {
		// the same request from several goroutines at once, with an Accept value nobody sent before
		labels = append(labels, "burst_with_unseen_accept_value")
		for b := 0; b < 12 && len(vs) == 0; b++ {
			rs := append([]AccRange{}, c.Accept...)
			rs[0].After = append(append([]string{}, rs[0].After...), "u="+strconv.FormatInt(atomic.AddInt64(&burstCounter, 1), 10))
			h := renderAccept(rs, true)
			start := make(chan struct{})
			got := make([]string, 8)
			var wg sync.WaitGroup
			for g := range got {
				wg.Add(1)
				go func(g int) {
					defer wg.Done()
					hr := harness.NewHTTPRequest(model.ReqSpec{Method: "GET", Path: "/x", Headers: []model.H{{K: "Accept", V: h}}}, "burst")
					w := httptest.NewRecorder()
					<-start
					func() {
						defer func() {
							if p := recover(); p != nil {
								got[g] = "panic: " + fmt.Sprint(p)
							}
						}()
						ct.Dispatch(w, hr)
					}()
					if got[g] == "" {
						got[g] = strconv.Itoa(w.Code) + " " + strings.Join(w.Header()["Content-Type"], "|")
					}
				}(g)
			}
			close(start)
			wg.Wait()
			for _, a := range got {
				if a != strconv.Itoa(wantStatus)+" "+want {
					vs = append(vs, viol("", "Produces=%v Accept=%q sent by 8 goroutines at once: answers %v, every one must be %d %s", c.Produces, h, got, wantStatus, want))
					break
				}
			}
		}
	}
	if len(seen) > 1 && len(vs) == 0 {
		vs = append(vs, viol("", "Produces=%v Accept=%q: the same request got different representations: %v", c.Produces, hdrs[0], seen))
	}
	// non-trivial: the header ranks the produced types differently from Produces order, or
	// carries whitespace/parameters next to a q-value
	nontrivial := false
	if len(c.Produces) >= 2 && want != c.Produces[0] {
		nontrivial = true
		labels = append(labels, "accept_overrides_produces_order")
	}
	for _, r := range c.Accept {
		if r.Q != "" && (len(r.WS) > 0 || len(r.Before) > 0 || len(r.After) > 0) {
			nontrivial = true
		}
	}
	st.Case(c, nontrivial, labels...)
	return vs
}

func TestC05(t *testing.T) {
	setupRegistry()
	rapid.Check(t, func(t *rapid.T) {
		harness.ResetGlobals()
		c := genC05(t)
		report(t, "C05", "TestC05", c, checkC05(c))
	})
}
