package props

import (
	"sort"
	"strconv"
	"strings"
	"testing"

	"pgregory.net/rapid"

	"verif/internal/harness"
	"verif/internal/model"
	"verif/internal/stats"
)

// C04 – path parameters are bound to exactly the URL text they stand for.

func init() { registerPart("C04", "TestC04", jsonReplay(checkC04)) }

func checkC04(c RoutingCase) (vs []*Violation) {
	st := stats.For("C04", "TestC04")
	rec := harness.NewRecorder()
	ct, p := buildRouting(c, rec, 0)
	if p != nil {
		return []*Violation{viol("", "building the table panicked: %v", p)}
	}
	nontrivial := false
	labels := []string{"router_" + c.Router}
	for i, req := range c.Reqs {
		if !model.CleanPath(req.Path) {
			continue
		}
		o := harness.Do(ct, rec, req, viaOf(c), strconv.Itoa(i))
		if o.Panic != "" {
			vs = append(vs, viol("", "%s %s %q: Dispatch panicked: %s", c.Router, req.Method, req.Path, o.Panic))
			continue
		}
		if len(o.Ran) != 1 {
			continue
		}
		s, r, ok := c.Table.FindRoute(o.Ran[0])
		if !ok {
			continue
		}
		full := s.Full(r)
		where := c.Router + " " + req.Method + " " + strconv.Quote(req.Path) + " ran " + r.ID + " [" + full.String() + "]"
		exact := true
		// judge compares the bindings with the URL text, the URL path being read as path; unesc maps
		// the model's text back to what the handler is expected to see
		judge := func(path string, unesc func(string) string, strict bool) (out []*Violation, skip bool) {
			b := model.MatchPath(full, path)
			if b.Match == model.N {
				if strict {
					return []*Violation{viol("", "%s: the route does not match the path read this way", where)}, false
				}
				return nil, true // C01's business
			}
			// exactly the declared names
			want := append([]string{}, full.VarNames()...)
			var got []string
			for k := range o.Params {
				got = append(got, k)
			}
			sort.Strings(want)
			sort.Strings(got)
			if strings.Join(want, ",") != strings.Join(got, ",") {
				return []*Violation{viol("", "%s: bound names %v, declared %v", where, got, want)}, false
			}
			for _, sgm := range full {
				if !sgm.IsVar() {
					continue
				}
				g, w := o.Params[sgm.Name], unesc(b.Params[sgm.Name])
				if b.Loose[sgm.Name] {
					exact = false
					if sgm.Kind == model.Tail && strings.TrimSuffix(g, "/") != strings.TrimSuffix(w, "/") {
						out = append(out, viol("", "%s: tail %s bound to %q, URL remainder is %q", where, sgm.Name, g, w))
					}
					continue
				}
				if g != w {
					out = append(out, viol("", "%s: %s bound to %q, the URL text at its position is %q", where, sgm.Name, g, w))
				}
			}
			// round trip up to the trailing slash
			if back := model.Substitute(full, o.Params); normSlash(back) != normSlash(req.Path) {
				out = append(out, viol("", "%s: substituting %s gives %q, not the request path", where, paramsString(o.Params), back))
			}
			return out, false
		}
		v1, skip := judge(req.Path, func(s string) string { return s }, false)
		if skip {
			labels = append(labels, "ran_on_nonmatching_path(C01)")
			continue
		}
		if raw := harness.EscapeKthSlash(req.Path, req.EscSlash); req.EscSlash > 0 && raw != "" {
			// a slash that travelled as %2F: the URL path is the decoded one (a separator like any
			// other) or the escaped one (part of its segment) - the bindings must fit one reading
			labels = append(labels, "escaped_slash_on_the_request_line")
			where += " (request line " + strconv.Quote(raw) + ")"
			if len(v1) > 0 {
				const mark = "\x01"
				marked, n := []byte(req.Path), 0
				for i := 1; i < len(marked); i++ {
					if marked[i] == '/' {
						if n++; n == req.EscSlash {
							marked[i] = mark[0]
						}
					}
				}
				v2, _ := judge(string(marked), func(s string) string { return strings.ReplaceAll(s, mark, "/") }, true)
				if len(v2) == 0 {
					v1 = nil
				}
			}
		}
		vs = append(vs, v1...)
		if len(v1) > 0 {
			continue
		}
		labels = append(labels, "bound_"+strconv.Itoa(len(full.VarNames()))+"_vars")
		nvars := len(full.VarNames())
		special := false
		for _, sgm := range full {
			if sgm.Verb != "" || sgm.Kind == model.Affix || sgm.Kind == model.Tail {
				special = true
			}
		}
		if exact && (nvars >= 2 || special || (len(s.Root.VarNames()) > 0 && len(r.Path.VarNames()) > 0)) {
			nontrivial = true
		}
		if len(s.Root.VarNames()) > 0 && len(r.Path.VarNames()) > 0 {
			labels = append(labels, "root_and_route_vars")
		}
		if special {
			labels = append(labels, "verb_affix_or_tail")
		}
	}
	st.Case(c, nontrivial, labels...)
	return vs
}

func TestC04(t *testing.T) {
	rapid.Check(t, func(t *rapid.T) {
		harness.ResetGlobals()
		c := genRoutingCase(t, false)
		for i := range c.Reqs {
			if n := strings.Count(c.Reqs[i].Path, "/") - 1; n > 0 && rapid.IntRange(0, 7).Draw(t, "escslash") == 0 {
				c.Reqs[i].EscSlash = rapid.IntRange(1, n).Draw(t, "whichslash")
			}
		}
		report(t, "C04", "TestC04", c, checkC04(c))
	})
}
