package props

import (
	"sort"
	"strconv"
	"strings"
	"testing"

	"pgregory.net/rapid"

	"verif/internal/harness"
	"verif/internal/model"
	"verif/internal/stats"
)

// C04 – path parameters are bound to exactly the URL text they stand for.

func init() { registerPart("C04", "TestC04", jsonReplay(checkC04)) }

func checkC04(c RoutingCase) (vs []*Violation) {
	st := stats.For("C04", "TestC04")
	rec := harness.NewRecorder()
	ct, p := buildRouting(c, rec, 0)
	if p != nil {
		return []*Violation{viol("", "building the table panicked: %v", p)}
	}
	nontrivial := false
	labels := []string{"router_" + c.Router}
	for i, req := range c.Reqs {
		if !model.CleanPath(req.Path) {
			continue
		}
		o := harness.Do(ct, rec, req, viaOf(c), strconv.Itoa(i))
		if o.Panic != "" {
			vs = append(vs, viol("", "%s %s %q: Dispatch panicked: %s", c.Router, req.Method, req.Path, o.Panic))
			continue
		}
		if len(o.Ran) != 1 {
			continue
		}
		s, r, ok := c.Table.FindRoute(o.Ran[0])
		if !ok {
			continue
		}
		full := s.Full(r)
		where := c.Router + " " + req.Method + " " + strconv.Quote(req.Path) + " ran " + r.ID + " [" + full.String() + "]"
		b := model.MatchPath(full, req.Path)
		if b.Match == model.N {
			labels = append(labels, "ran_on_nonmatching_path(C01)")
			continue // C01's business
		}
		labels = append(labels, "bound_"+strconv.Itoa(len(full.VarNames()))+"_vars")
		// exactly the declared names
		want := append([]string{}, full.VarNames()...)
		var got []string
		for k := range o.Params {
			got = append(got, k)
		}
		sort.Strings(want)
		sort.Strings(got)
		if strings.Join(want, ",") != strings.Join(got, ",") {
			vs = append(vs, viol("", "%s: bound names %v, declared %v", where, got, want))
			continue
		}
		exact := true
		for _, sgm := range full {
			if !sgm.IsVar() {
				continue
			}
			g, w := o.Params[sgm.Name], b.Params[sgm.Name]
			if b.Loose[sgm.Name] {
				exact = false
				if sgm.Kind == model.Tail && strings.TrimSuffix(g, "/") != strings.TrimSuffix(w, "/") {
					vs = append(vs, viol("", "%s: tail %s bound to %q, URL remainder is %q", where, sgm.Name, g, w))
				}
				continue
			}
			if g != w {
				vs = append(vs, viol("", "%s: %s bound to %q, the URL text at its position is %q", where, sgm.Name, g, w))
			}
		}
		// round trip up to the trailing slash
		if back := model.Substitute(full, o.Params); normSlash(back) != normSlash(req.Path) {
			vs = append(vs, viol("", "%s: substituting %s gives %q, not the request path", where, paramsString(o.Params), back))
		}
		nvars := len(full.VarNames())
		special := false
		for _, sgm := range full {
			if sgm.Verb != "" || sgm.Kind == model.Affix || sgm.Kind == model.Tail {
				special = true
			}
		}
		if exact && (nvars >= 2 || special || (len(s.Root.VarNames()) > 0 && len(r.Path.VarNames()) > 0)) {
			nontrivial = true
		}
		if len(s.Root.VarNames()) > 0 && len(r.Path.VarNames()) > 0 {
			labels = append(labels, "root_and_route_vars")
		}
		if special {
			labels = append(labels, "verb_affix_or_tail")
		}
	}
	st.Case(c, nontrivial, labels...)
	return vs
}

func TestC04(t *testing.T) {
	rapid.Check(t, func(t *rapid.T) {
		harness.ResetGlobals()
		c := genRoutingCase(t, false)
		report(t, "C04", "TestC04", c, checkC04(c))
	})
}
