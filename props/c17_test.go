package props

import (
	restful "github.com/emicklei/go-restful/v3"
	"strconv"
	"strings"
	"testing"

	"pgregory.net/rapid"

	"verif/internal/gen"
	"verif/internal/harness"
	"verif/internal/model"
	"verif/internal/stats"
)

// C17 – Allow headers tell the truth about which methods are routable.

func init() { registerPart("C17", "TestC17", jsonReplay(checkC17)) }

// method tokens are case-sensitive: "options" and "Options" are methods other than OPTIONS
var probeMethods = []string{"GET", "POST", "PUT", "PATCH", "DELETE", "HEAD", "OPTIONS", "FOO", "get", "options", "Options"}

func genC17(t *rapid.T) RoutingCase {
	c := RoutingCase{}
	c.Router = rapid.SampledFrom([]string{model.Curly, model.JSR311}).Draw(t, "router")
	cfg := gen.Common()
	// If-conditions: a route whose condition rejects the request is not routable for it; all
	// probes of one URL carry the same headers, so "a request to that same URL" is well defined
	cfg.Conds = rapid.Bool().Draw(t, "conds")
	if thorough() {
		cfg.MaxServices, cfg.MaxRoutes = 6, 12
	}
	c.Table = gen.Table(t, cfg)
	if rapid.IntRange(0, 4).Draw(t, "defaultcontainer") == 0 {
		c.Extra = map[string]int64{"default_container": 1}
	}
	if rapid.IntRange(0, 4).Draw(t, "corsinfront") == 0 {
		// a CORS filter in front of the OPTIONS filter (not needed, says the documentation, not
		// forbidden either): an OPTIONS request that is no preflight passes it and is answered
		// by the OPTIONS filter as ever
		if c.Extra == nil {
			c.Extra = map[string]int64{}
		}
		c.Extra["cors_in_front"] = 1
	}
	if rapid.IntRange(0, 3).Draw(t, "lateroute") == 0 {
		if c.Extra == nil {
			c.Extra = map[string]int64{}
		}
		c.Extra["late_route"] = int64(rapid.IntRange(1, 64).Draw(t, "latepick"))
	}
	// method names that contain one another (WebDAV): a list of methods is a list, not a string
	if rapid.IntRange(0, 3).Draw(t, "nestednames") == 0 {
		var cands [][2]int
		for si, sv := range c.Table.Services {
			for ri := range sv.Routes {
				cands = append(cands, [2]int{si, ri})
			}
		}
		if len(cands) > 0 {
			pk := cands[rapid.IntRange(0, len(cands)-1).Draw(t, "nestedroute")]
			pair := rapid.SampledFrom([][2]string{{"PROPPATCH", "PATCH"}, {"UNLOCK", "LOCK"}, {"PATCH", "PROPPATCH"}, {"XGET", "GET"}}).Draw(t, "nestedpair")
			sv := &c.Table.Services[pk[0]]
			sib := sv.Routes[pk[1]]
			sv.Routes[pk[1]].Method = pair[0]
			sib.ID, sib.Method = sib.ID+"n", pair[1]
			sv.Routes = append(sv.Routes, sib)
		}
	}
	for _, r := range genRequests(t, c.Table, cfg, 1, 6) {
		if !model.CleanPath(r.Path) {
			continue
		}
		u := model.ReqSpec{Method: "GET", Path: r.Path}
		for _, h := range r.Headers {
			if strings.HasPrefix(h.K, "X-Cond-") {
				u.Headers = append(u.Headers, h)
			}
		}
		c.Reqs = append(c.Reqs, u)
	}
	return c
}

func setOf(l []string) map[string]bool {
	m := map[string]bool{}
	for _, s := range l {
		m[s] = true
	}
	return m
}

func setString(m map[string]bool) string {
	var l []string
	for k := range m {
		l = append(l, k)
	}
	return strings.Join(model.SortedSet(l), ",")
}

func withoutOptions(m map[string]bool) map[string]bool {
	o := map[string]bool{}
	for k := range m {
		if k != "OPTIONS" {
			o[k] = true
		}
	}
	return o
}

// d20 is the signature of known finding D20: the OPTIONS filter's list contains every routable
// method, and each surplus method belongs to a route whose template matches the URL and one
// of whose If-conditions is false for the probe's headers.
func d20(tb model.TableSpec, u model.ReqSpec, routable, listed map[string]bool) bool {
	for m := range routable {
		if !listed[m] {
			return false
		}
	}
	hidden := map[string]bool{}
	for _, s := range tb.Services {
		for _, r := range s.Routes {
			if len(r.Conds) > 0 && !model.CondsHold(r.Conds, u) && model.MatchPath(s.Full(r), u.Path).Match != model.N {
				hidden[r.Method] = true
			}
		}
	}
	surplus := 0
	for m := range listed {
		if !routable[m] {
			if !hidden[m] {
				return false
			}
			surplus++
		}
	}
	return surplus > 0
}

// d12 is the signature of known finding D12: the OPTIONS filter lists every routable method
// plus methods that belong to path-matching routes of a WebService whose root also matches
// the URL but is not the best (longest) matching root.
func d12(tb model.TableSpec, path string, routable, listed map[string]bool) bool {
	best := -1
	var matching []int
	for i, s := range tb.Services {
		if model.MatchPrefix(s.Root, path) == model.Y {
			matching = append(matching, i)
			if best == -1 || len(s.Root) > len(tb.Services[best].Root) {
				best = i
			}
		}
	}
	if len(matching) < 2 {
		return false
	}
	other := map[string]bool{}
	for _, i := range matching {
		if i == best {
			continue
		}
		for _, r := range tb.Services[i].Routes {
			if model.MatchPath(tb.Services[i].Full(r), path).Match == model.Y {
				other[r.Method] = true
			}
		}
	}
	for m := range routable {
		if !listed[m] {
			return false
		}
	}
	extra := 0
	for m := range listed {
		if !routable[m] {
			if !other[m] {
				return false
			}
			extra++
		}
	}
	return extra > 0
}

func checkC17(c RoutingCase) (vs []*Violation) {
	st := stats.For("C17", "TestC17")
	recA, recB := harness.NewRecorder(), harness.NewRecorder()
	// the service that gets a route after the first probe round has dynamic routes enabled (the
	// documented way to change routes of a registered service)
	latePick := [2]int{-1, -1}
	if k := int(c.Extra["late_route"]); k > 0 {
		var cands [][2]int
		for si, sv := range c.Table.Services {
			for ri := range sv.Routes {
				cands = append(cands, [2]int{si, ri})
			}
		}
		if len(cands) > 0 {
			latePick = cands[(k-1)%len(cands)]
			tb := c.Table
			tb.Services = append([]model.ServiceSpec{}, tb.Services...)
			tb.Services[latePick[0]].Dynamic = true
			c.Table = tb
		}
	}
	optA := &harness.Options{Router: c.Router}
	plain, p1 := buildWith(c.Table, optA, recA, true)
	// a fifth of the cases use the package-level DefaultContainer and restful.OPTIONSFilter()
	asDefault := c.Extra["default_container"] == 1
	optB := &harness.Options{Router: c.Router, OptionsFilter: true, AsDefault: asDefault}
	corsInFront := c.Extra["cors_in_front"] == 1
	if corsInFront {
		optB.Setup = func(ct *restful.Container) {
			cors := restful.CrossOriginResourceSharing{AllowedDomains: []string{"http://a.com"}, CookiesAllowed: true, Container: ct}
			ct.Filter(cors.Filter)
		}
	}
	filt, p2 := buildWith(c.Table, optB, recB, true)
	if p1 != nil || p2 != nil {
		return []*Violation{viol("", "building the table panicked: %v / %v", p1, p2)}
	}
	methods := append([]string{}, probeMethods...)
	for _, s := range c.Table.Services {
		for _, r := range s.Routes {
			methods = append(methods, r.Method)
		}
	}
	methods = model.SortedSet(methods)
	nontrivial := false
	labels := []string{"router_" + c.Router}
	phase := ""
	probeAll := func() {
		for i, u := range c.Reqs {
			if !model.CleanPath(u.Path) {
				continue
			}
			where := c.Router + " URL " + strconv.Quote(u.Path) + phase
			routable := map[string]bool{}
			outs := map[string]harness.Outcome{}
			for _, m := range methods {
				o := harness.Do(plain, recA, model.ReqSpec{Method: m, Path: u.Path, Headers: u.Headers}, harness.ViaDispatch, strconv.Itoa(i)+m)
				outs[m] = o
				if o.Panic != "" {
					vs = append(vs, viol("", "%s %s: Dispatch panicked: %s", where, m, o.Panic))
					continue
				}
				if len(o.Ran) > 0 || (o.Status != 404 && o.Status != 405) {
					routable[m] = true
				}
			}
			labels = append(labels, "routable_"+strconv.Itoa(min(len(routable), 3))+"_methods")
			if len(routable) >= 2 {
				nontrivial = true
			}
			// 405 Allow sets
			for _, m := range methods {
				o := outs[m]
				if len(o.Ran) == 0 && o.Status == 405 {
					labels = append(labels, "probe_405")
					if got := setOf(o.Allow); setString(got) != setString(routable) {
						vs = append(vs, viol("", "%s: 405 for %s says Allow=[%s], but the methods not answered 404/405 are [%s]", where, m, setString(got), setString(routable)))
					}
				}
			}
			// the OPTIONS filter
			oh := u.Headers
			if corsInFront {
				oh = append(append([]model.H{}, u.Headers...), model.H{K: "Origin", V: "http://a.com"})
			}
			oo := harness.Do(filt, recB, model.ReqSpec{Method: "OPTIONS", Path: u.Path, Headers: oh}, harness.ViaDispatch, strconv.Itoa(i)+"opt")
			if oo.Panic != "" {
				vs = append(vs, viol("", "%s: OPTIONS with the filter panicked: %s", where, oo.Panic))
				continue
			}
			if len(oo.Ran) > 0 {
				vs = append(vs, viol("", "%s: the OPTIONS filter let a route function run: %v", where, oo.Ran))
			}
			allow := setOf(harness.ParseList(strings.Join(oo.Header["Allow"], ",")))
			acam := setOf(harness.ParseList(strings.Join(oo.Header["Access-Control-Allow-Methods"], ",")))
			want := withoutOptions(routable)
			for name, got := range map[string]map[string]bool{"Allow": allow, "Access-Control-Allow-Methods": acam} {
				g := withoutOptions(got)
				if setString(g) != setString(want) {
					if d20(c.Table, u, want, g) {
						vs = append(vs, viol("D20", "%s: OPTIONS filter lists %s=[%s], routable are [%s]: methods of routes whose If-condition rejects the request are included", where, name, setString(g), setString(want)))
					} else if d12(c.Table, u.Path, want, g) {
						vs = append(vs, viol("D12", "%s: OPTIONS filter lists %s=[%s], routable are [%s]: methods of a less specific WebService whose root also matches are included", where, name, setString(g), setString(want)))
					} else {
						vs = append(vs, viol("", "%s: OPTIONS filter lists %s=[%s], but the methods not answered 404/405 are [%s]", where, name, setString(g), setString(want)))
					}
				}
			}
			// every other method is untouched by the filter
			for _, m := range methods {
				if m == "OPTIONS" {
					continue
				}
				o2 := harness.Do(filt, recB, model.ReqSpec{Method: m, Path: u.Path, Headers: u.Headers}, harness.ViaDispatch, strconv.Itoa(i)+m)
				if o2.Key() != outs[m].Key() {
					vs = append(vs, viol("", "%s %s: outcome changes when the OPTIONS filter is installed: {%s} vs {%s}", where, m, outs[m].Key(), o2.Key()))
				}
			}
		}
	}
	probeAll()
	// a route table is not frozen by having been asked: a route added to (or removed from) a
	// registered WebService changes what is routable, and both Allow headers with it
	if latePick[0] >= 0 && len(vs) == 0 && len(optA.Services) == len(c.Table.Services) && len(optB.Services) == len(c.Table.Services) {
		pick := latePick
		late := c.Table.Services[pick[0]].Routes[pick[1]]
		late.ID, late.Method, late.Conds = late.ID+"late", "REPORT", nil
		optA.Services[pick[0]].Route(harness.NewRoute(optA.Services[pick[0]], late, recA, nil))
		optB.Services[pick[0]].Route(harness.NewRoute(optB.Services[pick[0]], late, recB, nil))
		methods = model.SortedSet(append(methods, "REPORT"))
		phase = " (after a REPORT route was added to a registered service)"
		labels = append(labels, "route_added_after_first_probes")
		probeAll()
	}
	st.Case(c, nontrivial, labels...)
	return vs
}

func TestC17(t *testing.T) {
	rapid.Check(t, func(t *rapid.T) {
		harness.ResetGlobals()
		c := genC17(t)
		report(t, "C17", "TestC17", c, checkC17(c))
	})
}
