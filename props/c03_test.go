package props

import (
	"regexp"
	"strconv"
	"testing"

	"pgregory.net/rapid"

	"verif/internal/gen"
	"verif/internal/harness"
	"verif/internal/model"
	"verif/internal/stats"
)

// C03 – best match: literals beat variables, independent of registration order.
// (i) specificity against the reference order, (ii) metamorphic: permuted registration.

func init() { registerPart("C03", "TestC03", jsonReplay(checkC03)) }

var varNameRe = regexp.MustCompile(`\{[a-zA-Z]+[0-9]+`)

// restrictToC03Domain removes, by construction, what the statement excludes: roots with the
// same literal/variable shape, same-method routes whose templates differ only in variable
// names (this also makes (method, template) pairs distinct). Returns how much was dropped.
func restrictToC03Domain(tb model.TableSpec) (model.TableSpec, int) {
	dropped := 0
	var out model.TableSpec
	shapes := map[string]bool{}
	for _, s := range tb.Services {
		if shapes[s.Root.Shape()] {
			dropped++
			continue
		}
		shapes[s.Root.Shape()] = true
		seen := map[string]bool{}
		var rs []model.RouteSpec
		for _, r := range s.Routes {
			k := r.Method + " " + varNameRe.ReplaceAllString(r.Path.String(), "{_")
			if seen[k] {
				dropped++
				continue
			}
			seen[k] = true
			rs = append(rs, r)
		}
		s.Routes = rs
		out.Services = append(out.Services, s)
	}
	return out, dropped
}

func genC03(t *rapid.T) RoutingCase {
	c := RoutingCase{Via: harness.ViaDispatch}
	c.Router = rapid.SampledFrom([]string{model.Curly, model.Curly, model.JSR311}).Draw(t, "router")
	cfg := gen.ForRouter(c.Router)
	if c.Router == model.JSR311 {
		cfg.RootVars, cfg.RootRegex = false, false // statement: JSR311 for literal root paths
	}
	if thorough() {
		cfg.MaxServices, cfg.MaxRoutes, cfg.MaxSegs = 8, 16, 5
	}
	tb := gen.Table(t, cfg)
	var dropped int
	c.Table, dropped = restrictToC03Domain(tb)
	c.Extra = map[string]int64{"dropped_outside_domain": int64(dropped)}
	c.Reqs = genRequests(t, c.Table, cfg, 1, 12)
	p := &Permutation{}
	n := len(c.Table.Services)
	idx := make([]int, n)
	for i := range idx {
		idx[i] = i
	}
	if n > 0 {
		p.Services = rapid.Permutation(idx).Draw(t, "svcperm")
	}
	for _, s := range c.Table.Services {
		ri := make([]int, len(s.Routes))
		for i := range ri {
			ri[i] = i
		}
		if len(ri) > 0 {
			ri = rapid.Permutation(ri).Draw(t, "routeperm")
		}
		p.Routes = append(p.Routes, ri)
	}
	c.Perm = p
	return c
}

func permute(tb model.TableSpec, p *Permutation) (model.TableSpec, bool) {
	if p == nil || len(p.Services) != len(tb.Services) || len(p.Routes) != len(tb.Services) {
		return tb, false
	}
	moved := false
	var out model.TableSpec
	for pos, si := range p.Services {
		if si < 0 || si >= len(tb.Services) || len(p.Routes[si]) != len(tb.Services[si].Routes) {
			return tb, false
		}
		if pos != si {
			moved = true
		}
		s := tb.Services[si]
		rs := make([]model.RouteSpec, 0, len(s.Routes))
		for rpos, ri := range p.Routes[si] {
			if ri < 0 || ri >= len(s.Routes) {
				return tb, false
			}
			if rpos != ri {
				moved = true
			}
			rs = append(rs, s.Routes[ri])
		}
		s.Routes = rs
		out.Services = append(out.Services, s)
	}
	return out, moved
}

func checkC03(c RoutingCase) (vs []*Violation) {
	st := stats.For("C03", "TestC03")
	recA, recB := harness.NewRecorder(), harness.NewRecorder()
	ca, pa := buildDispatchOnly(c.Table, c.Router, recA, 0)
	ptb, moved := permute(c.Table, c.Perm)
	cb, pb := buildDispatchOnly(ptb, c.Router, recB, 0)
	if pa != nil || pb != nil {
		return []*Violation{viol("", "building the table panicked: %v / %v", pa, pb)}
	}
	nontrivial := false
	labels := []string{"router_" + c.Router}
	if moved {
		labels = append(labels, "permutation_moved_something")
	}
	for i, req := range c.Reqs {
		if !model.CleanPath(req.Path) {
			continue
		}
		id := strconv.Itoa(i)
		oa := harness.Do(ca, recA, req, harness.ViaDispatch, id)
		ob := harness.Do(cb, recB, req, harness.ViaDispatch, id)
		where := c.Router + " " + req.Method + " " + strconv.Quote(req.Path)
		v := model.Decide(c.Table, req, c.Router)
		matchingRoots := 0
		for _, s := range c.Table.Services {
			if model.MatchPrefix(s.Root, req.Path) == model.Y {
				matchingRoots++
			}
		}
		if len(v.Eligible) >= 2 {
			labels = append(labels, "req_with_2plus_eligible_routes")
		}
		if matchingRoots >= 2 {
			labels = append(labels, "req_with_2plus_matching_roots")
		}
		if (len(v.Eligible) >= 2 || matchingRoots >= 2) && moved {
			nontrivial = true
		}
		// (ii) order independence
		if oa.Key() != ob.Key() {
			vs = append(vs, viol("", "%s: outcome depends on registration order: {%s} vs permuted {%s}", where, oa.Key(), ob.Key()))
		}
		// (i) specificity
		if len(oa.Ran) != 1 {
			continue
		}
		s, r, ok := c.Table.FindRoute(oa.Ran[0])
		if !ok {
			continue
		}
		el := map[string]bool{}
		for _, e := range v.Eligible {
			el[e] = true
		}
		for _, r2 := range s.Routes {
			if r2.ID != r.ID && el[r2.ID] && model.RouteRefines(s.Full(r2), s.Full(r)) {
				vs = append(vs, viol("", "%s: ran %s [%s] although the eligible route %s [%s] is more specific", where, r.ID, s.Full(r), r2.ID, s.Full(r2)))
			}
		}
		for _, s2 := range c.Table.Services {
			if s2.Root.String() != s.Root.String() && model.MatchPrefix(s2.Root, req.Path) == model.Y && model.RootDominates(c.Router, s2.Root, s.Root) {
				vs = append(vs, viol("", "%s: served by the WebService on %s although the matching root %s is more specific", where, s.Root, s2.Root))
			}
		}
	}
	st.Case(c, nontrivial, labels...)
	return vs
}

func TestC03(t *testing.T) {
	rapid.Check(t, func(t *rapid.T) {
		harness.ResetGlobals()
		c := genC03(t)
		report(t, "C03", "TestC03", c, checkC03(c))
	})
}
