package props

import (
	"strconv"
	"strings"
	"testing"

	"pgregory.net/rapid"

	"verif/internal/harness"
	"verif/internal/model"
	"verif/internal/stats"
)

// C01 – a route function runs only for requests its declaration admits (soundness: only a
// definite N of the reference model alarms; U never does).

func init() { registerPart("C01", "TestC01", jsonReplay(checkC01)) }

func genC01(t *rapid.T) RoutingCase {
	c := genRoutingCase(t, true)
	// recording filters on all three levels: what they see as the selected route is checked
	for si := range c.Table.Services {
		c.Table.Services[si].NFilters = rapid.IntRange(0, 2).Draw(t, "svcfilters")
		for ri := range c.Table.Services[si].Routes {
			c.Table.Services[si].Routes[ri].NFilters = rapid.IntRange(0, 2).Draw(t, "routefilters")
		}
	}
	c.Trace = rapid.Bool().Draw(t, "trace")
	return c
}

// selectedPathOf is the documented value of SelectedRoutePath: root path + route path.
func selectedPathOf(s model.ServiceSpec, r model.RouteSpec) string {
	return strings.TrimRight(s.Root.String(), "/") + "/" + strings.TrimLeft(harness.RoutePathString(r.Path), "/")
}

func normSlash(p string) string {
	if !strings.HasPrefix(p, "/") {
		p = "/" + p // a root path written without leading slash
	}
	if p == "/" {
		return p
	}
	return strings.TrimRight(p, "/")
}

func checkC01(c RoutingCase) (vs []*Violation) {
	st := stats.For("C01", "TestC01")
	rec := harness.NewRecorder()
	ct, p := buildRouting(c, rec, 2)
	if p != nil {
		return []*Violation{viol("", "building the table panicked: %v", p)}
	}
	harness.SetTrace(c.Trace)
	defer harness.SetTrace(false)
	nontrivial := false
	labels := []string{"router_" + c.Router, "via_" + viaOf(c)}
	for i, req := range c.Reqs {
		o := harness.Do(ct, rec, req, viaOf(c), strconv.Itoa(i))
		where := c.Router + " " + req.Method + " " + strconv.Quote(req.Path)
		if o.Panic != "" {
			vs = append(vs, viol("", "%s: %s panicked: %s", where, viaOf(c), o.Panic))
			continue
		}
		if muxAnswered(viaOf(c), o) {
			continue
		}
		labels = append(labels, "outcome_"+outcomeClass(o))
		// near miss that was refused: some route matches the path (or nearly) but nothing ran
		if len(o.Ran) == 0 {
			for _, s := range c.Table.Services {
				for _, r := range s.Routes {
					if model.MatchPath(s.Full(r), req.Path).Match == model.Y {
						nontrivial = true
					}
				}
			}
			continue
		}
		for _, id := range o.Ran {
			s, r, ok := c.Table.FindRoute(id)
			if !ok {
				vs = append(vs, viol("", "%s: unknown route function %q ran", where, id))
				continue
			}
			decl := r.Method + " " + s.Full(r).String()
			if r.Method != req.Method {
				vs = append(vs, viol("", "%s ran %s [%s]: method differs", where, id, decl))
			}
			if model.MatchPath(s.Full(r), req.Path).Match == model.N {
				vs = append(vs, viol("", "%s ran %s [%s]: the path does not match the route's template", where, id, decl))
			}
			if model.MatchPrefix(s.Root, req.Path) == model.N {
				vs = append(vs, viol("", "%s ran %s [%s]: the path does not match the WebService root", where, id, decl))
			}
			if model.ConsumesAtom(s.EffConsumes(r), r.Method, r.NoCT, req.Header("Content-Type")) == model.N {
				vs = append(vs, viol("", "%s ran %s [%s consumes %v]: Content-Type %q is not admitted", where, id, decl, s.EffConsumes(r), req.Header("Content-Type")))
			}
			if model.AcceptAtom(s.EffProduces(r), req.Header("Accept")) == model.N {
				vs = append(vs, viol("", "%s ran %s [%s produces %v]: Accept %q is not satisfiable", where, id, decl, s.EffProduces(r), req.Header("Accept")))
			}
			if !model.CondsHold(r.Conds, req) {
				vs = append(vs, viol("", "%s ran %s [%s]: an If-condition of the route is false for this request", where, id, decl))
			}
			// what filters and handler see as the selected route
			want := normSlash(selectedPathOf(s, r))
			seenLevels := map[string]bool{}
			for _, e := range o.Events {
				seenLevels[e.Kind[:1]] = true
				if e.SelDoc != r.ID || e.SelMethod != r.Method || normSlash(e.SelPath) != want {
					vs = append(vs, viol("", "%s ran %s [%s]: %s saw selected route doc=%q method=%q path=%q", where, id, decl, e.Kind, e.SelDoc, e.SelMethod, e.SelPath))
				}
				if r.Style&harness.StyleDocs != 0 && (e.SelOp != "op-"+r.ID || e.SelMeta != r.ID) {
					vs = append(vs, viol("", "%s ran %s [%s]: %s saw selected route operation=%q metadata=%q (declared op-%s, %s)", where, id, decl, e.Kind, e.SelOp, e.SelMeta, r.ID, r.ID))
				}
				if strings.Join(e.SelCons, ",") != strings.Join(s.EffConsumes(r), ",") {
					vs = append(vs, viol("", "%s ran %s [%s]: %s saw selected route consumes=%v, declared %v", where, id, decl, e.Kind, e.SelCons, s.EffConsumes(r)))
				}
			}
			if r.Style != 0 {
				labels = append(labels, "ran_route_written_in_another_builder_style")
			}
			if len(seenLevels) >= 3 {
				labels = append(labels, "ran_with_filters_on_3_levels")
			}
			// non-trivial: another route of the table matches the same path
			n := 0
			for _, s2 := range c.Table.Services {
				for _, r2 := range s2.Routes {
					if model.MatchPath(s2.Full(r2), req.Path).Match != model.N {
						n++
					}
				}
			}
			if n >= 2 {
				nontrivial = true
				labels = append(labels, "ran_with_competing_route")
			}
		}
	}
	st.Case(c, nontrivial, labels...)
	return vs
}

func TestC01(t *testing.T) {
	rapid.Check(t, func(t *rapid.T) {
		harness.ResetGlobals()
		c := genC01(t)
		report(t, "C01", "TestC01", c, checkC01(c))
	})
}
