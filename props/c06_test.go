package props

import (
	"fmt"
	"net/http"
	"net/http/httptest"
	"sort"
	"strconv"
	"strings"
	"sync"
	"sync/atomic"
	"testing"

	restful "github.com/emicklei/go-restful/v3"
	"pgregory.net/rapid"

	"verif/internal/harness"
	"verif/internal/model"
	"verif/internal/stats"
)

// C06 – filters run container, service, route in order, each once, per request.

func init() {
	registerPart("C06", "TestC06", jsonReplay(func(c C06Case) []*Violation { return checkC06(c, "TestC06") }))
	registerPart("C06", "TestC06Conc", jsonReplay(func(c C06Case) []*Violation { return checkC06(c, "TestC06Conc") }))
}

// FSpec is one generated filter.
type FSpec struct {
	ID   string `json:"id"`
	Kind string `json:"kind"` // pass, stop, replace, attr, mw_r, mw_w, mw_rw, mw_wv, mw_async, panic
}

type c06Route struct {
	Path    string  `json:"path"`
	Filters []FSpec `json:"filters,omitempty"`
	Panics  bool    `json:"panics,omitempty"`
	// Variant: the route is only eligible for requests whose X-Variant header has this value
	// (two routes of a service may share method and path and differ in this condition only)
	Variant string `json:"variant,omitempty"`
}

type c06Service struct {
	Root    string     `json:"root"`
	Filters []FSpec    `json:"filters,omitempty"`
	Routes  []c06Route `json:"routes"`
	// Order: when the service's filters are registered. 0 before its routes (the usual way),
	// 1 after its routes, 2 the first half before and the rest after, 3 after the service was
	// added to the container (dynamic routes: Add, then routes, then filters)
	Order int `json:"order,omitempty"`
}

type c06Req struct {
	Method  string `json:"method"`
	Path    string `json:"path"`
	Variant string `json:"variant,omitempty"`
}

// C06Case is a configuration plus a request history.
type C06Case struct {
	Via       string       `json:"via"`
	Container []FSpec      `json:"container,omitempty"`
	Services  []c06Service `json:"services"`
	HWF       bool         `json:"hwf,omitempty"` // a HandleWithFilter target on /hwf/
	Reqs      []c06Req     `json:"reqs"`
	// Parked: request A is held inside container filter At until request B was served completely.
	Parked *struct {
		A, B, At int
	} `json:"parked,omitempty"`
	Workers int `json:"workers,omitempty"` // concurrent part: goroutines issuing the multiset
	// LateContainer: the container filters are registered after the WebServices were added
	LateContainer bool `json:"late_container,omitempty"`
	// Trace: 0 tracing off, 1 on, 2 on and then switched off with TraceLogger(nil)
	Trace int `json:"trace,omitempty"`
}

var filterKinds = []string{"pass", "pass", "pass", "attr", "attr", "replace", "mw_r", "mw_w", "mw_rw", "mw_wv", "mw_async", "stop", "panic"}

func genFilters(t *rapid.T, prefix string, max int) []FSpec {
	n := rapid.IntRange(0, max).Draw(t, prefix+"n")
	var fs []FSpec
	for i := 0; i < n; i++ {
		fs = append(fs, FSpec{ID: prefix + strconv.Itoa(i), Kind: rapid.SampledFrom(filterKinds).Draw(t, prefix+"kind")})
	}
	return fs
}

func genC06(t *rapid.T, concurrent bool) C06Case {
	c := C06Case{Via: harness.ViaDispatch}
	maxF := 3
	if thorough() {
		maxF = 6
	}
	c.Container = genFilters(t, "c", 7)
	ns := rapid.IntRange(1, 2).Draw(t, "nservices")
	for s := 0; s < ns; s++ {
		sv := c06Service{Root: "/s" + strconv.Itoa(s), Filters: genFilters(t, "s"+strconv.Itoa(s)+"f", maxF)}
		nr := rapid.IntRange(1, 2).Draw(t, "nroutes")
		for r := 0; r < nr; r++ {
			sv.Routes = append(sv.Routes, c06Route{Path: "/r" + strconv.Itoa(r), Filters: genFilters(t, "s"+strconv.Itoa(s)+"r"+strconv.Itoa(r)+"f", maxF), Panics: rapid.IntRange(0, 9).Draw(t, "handlerpanics") == 0})
		}
		if nr == 2 && rapid.IntRange(0, 2).Draw(t, "siblings") == 0 {
			// same method, same path: only the condition tells the two routes (and their filters) apart
			sv.Routes[1].Path = sv.Routes[0].Path
			sv.Routes[0].Variant, sv.Routes[1].Variant = "a", "b"
		}
		if rapid.IntRange(0, 3).Draw(t, "lateorder") == 0 {
			sv.Order = rapid.IntRange(1, 3).Draw(t, "order")
		}
		c.Services = append(c.Services, sv)
	}
	c.LateContainer = rapid.IntRange(0, 5).Draw(t, "latecontainer") == 0
	c.Trace = rapid.SampledFrom([]int{0, 0, 0, 1, 2}).Draw(t, "trace")
	// at most one asynchronous middleware per configuration (it returns before the rest of the
	// chain has finished, like http.TimeoutHandler after its deadline)
	seenAsync := false
	demote := func(fs []FSpec) {
		for i := range fs {
			if fs[i].Kind == "mw_async" {
				if seenAsync || concurrent {
					fs[i].Kind = "mw_rw"
				}
				seenAsync = true
			}
		}
	}
	demote(c.Container)
	for si := range c.Services {
		demote(c.Services[si].Filters)
		for ri := range c.Services[si].Routes {
			demote(c.Services[si].Routes[ri].Filters)
		}
	}
	c.HWF = rapid.Bool().Draw(t, "hwf")
	if c.HWF || rapid.Bool().Draw(t, "viaserve") {
		c.Via = harness.ViaServe
	}
	n := rapid.IntRange(1, 20).Draw(t, "nreqs")
	for i := 0; i < n; i++ {
		var q c06Req
		sv := c.Services[rapid.IntRange(0, len(c.Services)-1).Draw(t, "svc")]
		rt := sv.Routes[rapid.IntRange(0, len(sv.Routes)-1).Draw(t, "route")]
		switch x := rapid.IntRange(0, 9).Draw(t, "reqkind"); {
		case x < 6:
			q = c06Req{"GET", sv.Root + rt.Path, rt.Variant}
		case x == 6:
			q = c06Req{"GET", sv.Root + "/none", ""} // 404 inside a service
		case x == 7:
			q = c06Req{"POST", sv.Root + rt.Path, rt.Variant} // 405
			if rapid.Bool().Draw(t, "preflightshaped") {
				// looks like a CORS preflight (OPTIONS + Access-Control-Request-Method); no route has
				// that method, so it fails routing like any other request does
				q.Method = "OPTIONS"
			}
		case x == 8 && c.HWF:
			q = c06Req{"GET", "/hwf/x", ""}
		default:
			q = c06Req{"GET", sv.Root + rt.Path, rt.Variant}
		}
		c.Reqs = append(c.Reqs, q)
	}
	if concurrent {
		c.Workers = rapid.SampledFrom([]int{2, 4, 8, 16}).Draw(t, "workers")
	} else if len(c.Reqs) >= 2 && len(c.Container) > 0 && rapid.Bool().Draw(t, "parked") {
		a := rapid.IntRange(0, len(c.Reqs)-1).Draw(t, "parkA")
		b := rapid.IntRange(0, len(c.Reqs)-2).Draw(t, "parkB")
		if b >= a {
			b++
		}
		c.Parked = &struct{ A, B, At int }{a, b, rapid.IntRange(0, len(c.Container)-1).Draw(t, "parkAt")}
	}
	return c
}

// what an element received / what its predecessor passed on
type c06State struct {
	Req, Resp, HTTPReq, Writer string
	Attrs                      string
}

type c06Event struct {
	ID     string
	Recv   c06State
	Passed *c06State // nil: control was not passed on
}

type c06Recorder struct {
	mu   sync.Mutex
	logs map[string][]*c06Event
}

func (r *c06Recorder) add(reqID string, e *c06Event) {
	r.mu.Lock()
	r.logs[reqID] = append(r.logs[reqID], e)
	r.mu.Unlock()
}

func ident(v interface{}) string { return fmt.Sprintf("%T@%p", v, v) }

func attrsOf(req *restful.Request, ids []string) string {
	var have []string
	for _, id := range ids {
		if req.Attribute("k"+id) != nil {
			have = append(have, id)
		}
	}
	sort.Strings(have)
	return strings.Join(have, ",")
}

// wrapWriter is the writer a middleware puts in place of the one it received; it counts the
// flushes that reach it.
type wrapWriter struct {
	http.ResponseWriter
	flushed int32
}

// valWriter is a writer a middleware passes on by value; with its slice it is a type whose values
// cannot be compared with == (a middleware is free to use such a type).
type valWriter struct {
	http.ResponseWriter
	tags []string
}

func (w *wrapWriter) Flush() {
	atomic.AddInt32(&w.flushed, 1)
	if f, ok := w.ResponseWriter.(http.Flusher); ok {
		f.Flush()
	}
}

const c06ReqHeader = "X-Verif-Req"

func checkC06(c C06Case, partName string) (vs []*Violation) {
	st := stats.For("C06", partName)
	rec := &c06Recorder{logs: map[string][]*c06Event{}}
	var allIDs []string
	collect := func(fs []FSpec) {
		for _, f := range fs {
			allIDs = append(allIDs, f.ID)
		}
	}
	collect(c.Container)
	for _, s := range c.Services {
		collect(s.Filters)
		for _, r := range s.Routes {
			collect(r.Filters)
		}
	}
	stateOf := func(req *restful.Request, resp *restful.Response) c06State {
		return c06State{ident(req), ident(resp), ident(req.Request), ident(resp.ResponseWriter), attrsOf(req, allIDs)}
	}
	// parking support
	var parkID string
	parkAt := ""
	parked := make(chan struct{})
	release := make(chan struct{})
	if c.Parked != nil && c.Parked.At < len(c.Container) {
		parkID = strconv.Itoa(c.Parked.A)
		parkAt = c.Container[c.Parked.At].ID
	}

	// asynchronous middleware support: the element after the middleware computes what it passes
	// on, lets the middleware return, and only then passes control on
	type asyncCtl struct {
		reached, returned, finished chan struct{}
		once                        sync.Once
	}
	var amu sync.Mutex
	async := map[string]*asyncCtl{}
	getAsync := func(rid string) *asyncCtl {
		amu.Lock()
		defer amu.Unlock()
		return async[rid]
	}
	asyncHook := func(rid string) {
		if ctl := getAsync(rid); ctl != nil {
			fired := false
			ctl.once.Do(func() { close(ctl.reached); fired = true })
			if fired {
				<-ctl.returned
			}
		}
	}
	mkFilter := func(f FSpec) restful.FilterFunction {
		base := func(req *restful.Request, resp *restful.Response, chain *restful.FilterChain) {
			rid := req.Request.Header.Get(c06ReqHeader)
			ev := &c06Event{ID: f.ID, Recv: stateOf(req, resp)}
			rec.add(rid, ev)
			if f.ID == parkAt && rid == parkID {
				parked <- struct{}{}
				<-release
			}
			switch f.Kind {
			case "stop":
				resp.WriteHeader(299)
				resp.Write([]byte("stopped by " + f.ID))
				return
			case "panic":
				panic("filter " + f.ID + " panics")
			case "replace":
				nreq := restful.NewRequest(req.Request)
				nresp := restful.NewResponse(resp.ResponseWriter)
				s := stateOf(nreq, nresp)
				ev.Passed = &s
				asyncHook(rid)
				chain.ProcessFilter(nreq, nresp)
				return
			case "attr":
				req.SetAttribute("k"+f.ID, f.ID)
			}
			s := stateOf(req, resp)
			ev.Passed = &s
			asyncHook(rid)
			chain.ProcessFilter(req, resp)
		}
		if !strings.HasPrefix(f.Kind, "mw_") {
			return base
		}
		// an http middleware that replaces the request and/or the writer, adapted by the library
		var mwRec func(rid string) *c06Event
		mw := func(next http.Handler) http.Handler {
			return http.HandlerFunc(func(w http.ResponseWriter, r *http.Request) {
				r2, w2 := r, w
				if f.Kind == "mw_r" || f.Kind == "mw_rw" {
					r2 = r.WithContext(r.Context())
				}
				if f.Kind == "mw_w" || f.Kind == "mw_rw" {
					w2 = &wrapWriter{ResponseWriter: w}
				}
				if f.Kind == "mw_async" {
					w2 = &wrapWriter{ResponseWriter: w}
				}
				if f.Kind == "mw_wv" {
					w2 = valWriter{ResponseWriter: w, tags: []string{f.ID}}
				}
				rid := r.Header.Get(c06ReqHeader)
				ev := mwRec(rid)
				if ev != nil {
					ev.Passed.HTTPReq, ev.Passed.Writer = ident(r2), ident(w2)
				}
				if f.Kind != "mw_async" {
					next.ServeHTTP(w2, r2)
					return
				}
				ctl := &asyncCtl{reached: make(chan struct{}), returned: make(chan struct{}), finished: make(chan struct{})}
				amu.Lock()
				async[rid] = ctl
				amu.Unlock()
				go func() {
					defer close(ctl.finished)
					defer func() { recover() }()
					next.ServeHTTP(w2, r2)
				}()
				select { // return as soon as the next element knows what it passes on (or everything is done)
				case <-ctl.reached:
				case <-ctl.finished:
				}
			})
		}
		adapted := restful.HttpMiddlewareHandlerToFilter(mw)
		var mu sync.Mutex
		pending := map[string]*c06Event{}
		mwRec = func(rid string) *c06Event {
			mu.Lock()
			defer mu.Unlock()
			return pending[rid]
		}
		return func(req *restful.Request, resp *restful.Response, chain *restful.FilterChain) {
			rid := req.Request.Header.Get(c06ReqHeader)
			s := stateOf(req, resp)
			ev := &c06Event{ID: f.ID, Recv: s, Passed: &c06State{s.Req, s.Resp, s.HTTPReq, s.Writer, s.Attrs}}
			rec.add(rid, ev)
			mu.Lock()
			pending[rid] = ev
			mu.Unlock()
			adapted(req, resp, chain)
			if ctl := getAsync(rid); ctl != nil && f.Kind == "mw_async" {
				close(ctl.returned) // the adapter has returned: the rest of the chain may go on
			}
		}
	}

	var flushMu sync.Mutex
	var flushProblems []string
	ct := restful.NewContainer()
	ct.DoNotRecover(false)
	ct.RecoverHandler(func(p interface{}, w http.ResponseWriter) { w.WriteHeader(500) })
	ct.ServiceErrorHandler(func(se restful.ServiceError, req *restful.Request, resp *restful.Response) {
		rec.add(req.Request.Header.Get(c06ReqHeader), &c06Event{ID: "E", Recv: stateOf(req, resp)})
		resp.WriteErrorString(se.Code, se.Message)
	})
	if !c.LateContainer {
		for _, f := range c.Container {
			ct.Filter(mkFilter(f))
		}
	}
	for _, s := range c.Services {
		ws := new(restful.WebService)
		ws.Path(s.Root)
		before := len(s.Filters)
		switch s.Order {
		case 1, 3:
			before = 0
		case 2:
			before = len(s.Filters) / 2
		}
		for _, f := range s.Filters[:before] {
			ws.Filter(mkFilter(f))
		}
		if s.Order == 3 {
			ws.SetDynamicRoutes(true)
			ct.Add(ws)
		}
		for _, r := range s.Routes {
			r := r
			hid := "h:" + s.Root + r.Path + r.Variant
			rb := ws.GET(r.Path)
			if r.Variant != "" {
				rb.If(func(hr *http.Request) bool { return hr.Header.Get("X-Variant") == r.Variant })
			}
			for fi, f := range r.Filters {
				if s.Order != 0 && fi%2 == 0 {
					// registered from inside a Do block: the same call, made where Do stands
					mf := mkFilter(f)
					rb.Do(func(b *restful.RouteBuilder) { b.Filter(mf) })
					continue
				}
				rb.Filter(mkFilter(f))
			}
			ws.Route(rb.To(func(req *restful.Request, resp *restful.Response) {
				rec.add(req.Request.Header.Get(c06ReqHeader), &c06Event{ID: hid, Recv: stateOf(req, resp)})
				if r.Panics {
					panic("handler panics")
				}
				// the Response that was passed on works on the writer that was passed on with it
				if ww, ok := resp.ResponseWriter.(*wrapWriter); ok {
					before := atomic.LoadInt32(&ww.flushed)
					resp.Flush()
					if atomic.LoadInt32(&ww.flushed) != before+1 {
						flushMu.Lock()
						flushProblems = append(flushProblems, hid+": Flush on the Response the route function received did not reach the writer the last middleware passed on")
						flushMu.Unlock()
					}
				}
				resp.WriteHeader(200)
			}))
		}
		for _, f := range s.Filters[before:] {
			ws.Filter(mkFilter(f))
		}
		if s.Order != 3 {
			ct.Add(ws)
		}
	}
	if c.LateContainer {
		for _, f := range c.Container {
			ct.Filter(mkFilter(f))
		}
	}
	if c.HWF {
		ct.HandleWithFilter("/hwf/", http.HandlerFunc(func(w http.ResponseWriter, r *http.Request) {
			ev := &c06Event{ID: "H"}
			ev.Recv.HTTPReq = ident(r)
			if resp, ok := w.(*restful.Response); ok {
				ev.Recv.Resp = ident(resp)
				ev.Recv.Writer = ident(resp.ResponseWriter)
			} else {
				ev.Recv.Resp = "not-a-*Response:" + ident(w)
			}
			rec.add(r.Header.Get(c06ReqHeader), ev)
			w.WriteHeader(200)
		}))
	}

	// the model: expected element ids for a request
	cut := func(ids []string, fs []FSpec) ([]string, bool) {
		for _, f := range fs {
			ids = append(ids, f.ID)
			if f.Kind == "stop" || f.Kind == "panic" {
				return ids, true
			}
		}
		return ids, false
	}
	expect := func(q c06Req) (ids []string, class string) {
		ids, stopped := cut(nil, c.Container)
		if q.Path == "/hwf/x" {
			if !stopped {
				ids = append(ids, "H")
			}
			return ids, "hwf"
		}
		for _, s := range c.Services {
			for _, r := range s.Routes {
				if q.Path == s.Root+r.Path && q.Method == "GET" && q.Variant == r.Variant {
					if stopped {
						return ids, "routed"
					}
					if ids, stopped = cut(ids, s.Filters); stopped {
						return ids, "routed"
					}
					if ids, stopped = cut(ids, r.Filters); stopped {
						return ids, "routed"
					}
					return append(ids, "h:"+s.Root+r.Path+r.Variant), "routed"
				}
			}
		}
		if !stopped {
			ids = append(ids, "E")
		}
		return ids, "unroutable"
	}

	do := func(i int, suffix string) (panicked interface{}) {
		q := c.Reqs[i]
		hr := harness.NewHTTPRequest(model.ReqSpec{Method: q.Method, Path: q.Path}, "")
		hr.Header.Set(c06ReqHeader, strconv.Itoa(i)+suffix)
		if q.Variant != "" {
			hr.Header.Set("X-Variant", q.Variant)
		}
		if q.Method == "OPTIONS" {
			hr.Header.Set("Origin", "http://a.com")
			hr.Header.Set("Access-Control-Request-Method", "GET")
		}
		w := httptest.NewRecorder()
		defer func() {
			panicked = recover()
			if ctl := getAsync(strconv.Itoa(i) + suffix); ctl != nil {
				ctl.once.Do(func() { close(ctl.reached) })
				select {
				case <-ctl.returned:
				default:
					func() { defer func() { recover() }(); close(ctl.returned) }()
				}
				<-ctl.finished // the detached part of the chain is joined before the request is judged
			}
		}()
		if c.Via == harness.ViaServe {
			ct.ServeHTTP(w, hr)
		} else {
			ct.Dispatch(w, hr)
		}
		return nil
	}

	labels := []string{"via_" + c.Via, "trace_" + strconv.Itoa(c.Trace)}
	switch c.Trace {
	case 1:
		harness.SetTrace(true)
	case 2:
		harness.SetTrace(true)
		harness.SetTraceOff(true)
	}
	defer harness.SetTrace(false)
	nontrivial := false
	var reqIDs []string // request ids in the log (index + suffix)
	switch {
	case c.Workers > 0:
		labels = append(labels, "concurrent")
		var wg sync.WaitGroup
		for g := 0; g < c.Workers; g++ {
			wg.Add(1)
			go func(g int) {
				defer wg.Done()
				for i := range c.Reqs {
					j := (i + g) % len(c.Reqs)
					do(j, "g"+strconv.Itoa(g))
				}
			}(g)
		}
		wg.Wait()
		for g := 0; g < c.Workers; g++ {
			for i := range c.Reqs {
				reqIDs = append(reqIDs, strconv.Itoa(i)+"g"+strconv.Itoa(g))
			}
		}
	case parkAt != "":
		labels = append(labels, "parked_schedule")
		done := make(chan struct{})
		go func() { do(c.Parked.A, ""); close(done) }()
		ranB := false
		select {
		case <-parked:
			do(c.Parked.B, "")
			ranB = true
			close(release)
		case <-done: // A never reached the parking filter (an earlier filter stopped)
		}
		<-done
		for i := range c.Reqs {
			if i != c.Parked.A && (i != c.Parked.B || !ranB) {
				do(i, "")
			}
		}
		for i := range c.Reqs {
			reqIDs = append(reqIDs, strconv.Itoa(i))
		}
	default:
		for i := range c.Reqs {
			do(i, "") // an escaping panic is C10's business (recovery does not cover HandleWithFilter targets)
			reqIDs = append(reqIDs, strconv.Itoa(i))
		}
	}

	for _, rid := range reqIDs {
		idx, _ := strconv.Atoi(strings.SplitN(rid, "g", 2)[0])
		q := c.Reqs[idx]
		want, class := expect(q)
		got := rec.logs[rid]
		var gotIDs []string
		for _, e := range got {
			gotIDs = append(gotIDs, e.ID)
		}
		where := fmt.Sprintf("req %s %s %s (%s)", rid, q.Method, q.Path, class)
		if strings.Join(gotIDs, " ") != strings.Join(want, " ") {
			vs = append(vs, viol("", "%s: elements ran [%s], expected [%s]", where, strings.Join(gotIDs, " "), strings.Join(want, " ")))
			continue
		}
		for i := 1; i < len(got); i++ {
			prev, cur := got[i-1], got[i]
			if prev.Passed == nil {
				vs = append(vs, viol("", "%s: %s ran although %s did not pass control on", where, cur.ID, prev.ID))
				continue
			}
			p, r := *prev.Passed, cur.Recv
			if cur.ID == "H" {
				// a plain handler behind HandleWithFilter gets the Response as writer and the http request
				if r.Resp != p.Resp || r.HTTPReq != p.HTTPReq || r.Writer != p.Writer {
					vs = append(vs, viol("", "%s: the handler received %+v, %s passed on %+v", where, r, prev.ID, p))
				}
				continue
			}
			if r != p {
				vs = append(vs, viol("", "%s: %s received %+v, but %s passed on %+v", where, cur.ID, r, prev.ID, p))
			}
		}
		levels := 0
		if len(c.Container) > 0 {
			levels++
		}
		special := class == "unroutable"
		for _, s := range c.Services {
			if strings.HasPrefix(q.Path, s.Root+"/") {
				if len(s.Filters) > 0 {
					levels++
				}
				for _, r := range s.Routes {
					if q.Path == s.Root+r.Path && len(r.Filters) > 0 {
						levels++
					}
				}
			}
		}
		for _, e := range got {
			for _, f := range append(append([]FSpec{}, c.Container...), allSpecs(c)...) {
				if f.ID == e.ID && f.Kind != "pass" && f.Kind != "attr" {
					special = true
				}
			}
		}
		if levels >= 2 && special {
			nontrivial = true
		}
		labels = append(labels, "class_"+class)
	}
	flushMu.Lock()
	for _, fp := range model.SortedSet(flushProblems) {
		vs = append(vs, viol("", "%s", fp))
	}
	flushMu.Unlock()
	st.Case(c, nontrivial, labels...)
	return vs
}

func allSpecs(c C06Case) []FSpec {
	var out []FSpec
	for _, s := range c.Services {
		out = append(out, s.Filters...)
		for _, r := range s.Routes {
			out = append(out, r.Filters...)
		}
	}
	return out
}

func TestC06(t *testing.T) {
	rapid.Check(t, func(t *rapid.T) {
		harness.ResetGlobals()
		c := genC06(t, false)
		report(t, "C06", "TestC06", c, checkC06(c, "TestC06"))
	})
}

func TestC06Conc(t *testing.T) {
	rapid.Check(t, func(t *rapid.T) {
		harness.ResetGlobals()
		c := genC06(t, true)
		saveRunning("C06", "TestC06Conc", c)
		report(t, "C06", "TestC06Conc", c, checkC06(c, "TestC06Conc"))
	})
}
