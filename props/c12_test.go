package props

import (
	"fmt"
	"net/http"
	"net/http/httptest"
	"runtime"
	"strconv"
	"strings"
	"sync"
	"sync/atomic"
	"testing"
	"time"

	restful "github.com/emicklei/go-restful/v3"
	"pgregory.net/rapid"

	"verif/internal/harness"
	"verif/internal/model"
	"verif/internal/stats"
)

// C12 – services and routes can change while requests are being served (race build).

func init() { registerPart("C12", "TestC12", jsonReplay(checkC12)) }

type c12Mutator struct {
	Kind    string `json:"kind"` // service: Add/Remove of its own WebService; route: Route/RemoveRoute of its own route
	Toggles int    `json:"toggles"`
}

// C12Case is one concurrent schedule (free running) or one stepped schedule.
type C12Case struct {
	Router   string       `json:"router"`
	Via      string       `json:"via"`
	Servers  int          `json:"servers"`
	Requests int          `json:"requests"` // per serving goroutine
	Mutators []c12Mutator `json:"mutators"`
	Filters  int          `json:"filters"`           // container filters (exercise the composed chain)
	Options  string       `json:"options,omitempty"` // "", "filter" (Container.OPTIONSFilter), "cors" (CORS filter with computed methods)
	Fillers  int          `json:"fillers,omitempty"` // extra never-changing routes on the dynamic-routes service
	// SharedPrefix: the changing services live on /m/{t}/s<i> next to a never-changing /m/{t}/keep:
	// they all share one ServeMux pattern (the fixed prefix /m/), whose bookkeeping Add and Remove touch
	SharedPrefix bool `json:"shared_prefix,omitempty"`
	// Stepped: park one request at a pause point while a mutation of its own target runs.
	Stepped *c12Step `json:"stepped,omitempty"`
}

type c12Step struct {
	Point    string `json:"point"`    // cond (inside selection, read lock held), cond2 (second evaluation for the same request: inside computeAllowedMethods), filter, handler
	Mutation string `json:"mutation"` // remove_service, remove_route, add_other
	Target   string `json:"target"`   // service | route: which changing target the parked request addresses
}

func genC12(t *rapid.T) C12Case {
	c := C12Case{}
	c.Router = rapid.SampledFrom([]string{model.Curly, model.JSR311}).Draw(t, "router")
	c.Via = rapid.SampledFrom([]string{harness.ViaDispatch, harness.ViaServe}).Draw(t, "via")
	c.Filters = rapid.IntRange(0, 3).Draw(t, "filters")
	c.Options = rapid.SampledFrom([]string{"", "", "filter", "cors"}).Draw(t, "options")
	c.Fillers = rapid.SampledFrom([]int{0, 0, 50, 500}).Draw(t, "fillers")
	c.SharedPrefix = rapid.IntRange(0, 2).Draw(t, "sharedprefix") == 0
	if rapid.IntRange(0, 3).Draw(t, "stepped") == 0 {
		points := []string{"cond", "filter", "handler"}
		if c.Options != "" {
			points = append(points, "cond2", "cond2")
		}
		c.Stepped = &c12Step{
			Point:    rapid.SampledFrom(points).Draw(t, "point"),
			Mutation: rapid.SampledFrom([]string{"remove_service", "remove_route", "add_other"}).Draw(t, "mutation"),
			Target:   rapid.SampledFrom([]string{"service", "route"}).Draw(t, "steptarget"),
		}
		c.Servers, c.Requests = 1, 1
		c.Mutators = []c12Mutator{{Kind: "service", Toggles: 0}, {Kind: "route", Toggles: 0}}
		return c
	}
	c.Servers = rapid.IntRange(2, 8).Draw(t, "servers")
	c.Requests = rapid.IntRange(20, 200).Draw(t, "requests")
	nm := rapid.IntRange(1, 3).Draw(t, "nmutators")
	sameKind := rapid.SampledFrom([]string{"", "", "route", "service"}).Draw(t, "samekind") // several mutators on one WebService / one container
	for i := 0; i < nm; i++ {
		k := rapid.SampledFrom([]string{"service", "route"}).Draw(t, "mkind")
		if sameKind != "" {
			k = sameKind
		}
		c.Mutators = append(c.Mutators, c12Mutator{Kind: k, Toggles: rapid.IntRange(20, 200).Draw(t, "toggles")})
	}
	return c
}

type c12Interval struct {
	t0, t1  int64
	present bool // state after the mutation
}

type c12Target struct {
	path      string
	routeID   string
	mu        sync.Mutex
	timeline  []c12Interval
	initially bool
}

// verdict for a request interval [s,e]: "present", "absent" or "either"
func (tg *c12Target) verdict(s, e int64) string {
	tg.mu.Lock()
	defer tg.mu.Unlock()
	state := tg.initially
	for _, iv := range tg.timeline {
		if iv.t1 <= s {
			state = iv.present
			continue
		}
		if iv.t0 > e {
			break
		}
		return "either" // the mutation overlaps the request
	}
	if state {
		return "present"
	}
	return "absent"
}

func checkC12(c C12Case) (vs []*Violation) {
	st := stats.For("C12", "TestC12")
	var clock int64
	ct := restful.NewContainer()
	if c.Router == model.JSR311 {
		ct.Router(restful.RouterJSR311{})
	}
	type pauseKey struct{ point string }
	var parkOn atomic.Value // string: request id to park, "" none
	parkOn.Store("")
	parked := make(chan string, 4)
	release := make(chan struct{})
	var condEvals int64 // evaluations of an If-condition for the request that is to be parked
	park := func(r *http.Request, point string) {
		if c.Stepped == nil || r.Header.Get("X-Park") != "1" {
			return
		}
		if point == "cond" && c.Stepped.Point == "cond2" {
			if atomic.AddInt64(&condEvals, 1) != 2 {
				return
			}
			point = "cond2"
		}
		if c.Stepped.Point == point {
			parked <- point
			<-release
		}
	}
	switch c.Options {
	case "filter":
		ct.Filter(ct.OPTIONSFilter)
	case "cors":
		cors := restful.CrossOriginResourceSharing{AllowedDomains: []string{"http://a.com"}, Container: ct}
		ct.Filter(cors.Filter)
	}
	for i := 0; i < c.Filters; i++ {
		first := i == 0
		ct.Filter(func(req *restful.Request, resp *restful.Response, chain *restful.FilterChain) {
			if first {
				park(req.Request, "filter")
			}
			chain.ProcessFilter(req, resp)
		})
	}
	if c.Stepped != nil && c.Filters == 0 {
		ct.Filter(func(req *restful.Request, resp *restful.Response, chain *restful.FilterChain) {
			park(req.Request, "filter")
			chain.ProcessFilter(req, resp)
		})
	}
	handler := func(id string) restful.RouteFunction {
		return func(req *restful.Request, resp *restful.Response) {
			park(req.Request, "handler")
			resp.Header().Set("X-Route", id)
			resp.Header().Set("X-Param", req.PathParameter("id"))
			resp.WriteHeader(200)
		}
	}
	cond := func(r *http.Request) bool { park(r, "cond"); return true }

	// stable content
	stable := new(restful.WebService)
	stable.Path("/stable")
	stable.Route(stable.GET("/a").If(cond).To(handler("stable-a")))
	stable.Route(stable.GET("/item/{id}").To(handler("stable-item")))
	stable.Route(stable.POST("/a").To(handler("stable-post")))
	ct.Add(stable)
	dyn := new(restful.WebService)
	dyn.Path("/dyn")
	dyn.SetDynamicRoutes(true)
	dyn.Route(dyn.GET("/fixed").To(handler("dyn-fixed")))
	for i := 0; i < c.Fillers; i++ {
		dyn.Route(dyn.GET("/filler/" + strconv.Itoa(i)).To(handler("filler")))
	}
	ct.Add(dyn)

	type stableProbe struct {
		method, path, want string
	}
	outcome := func(method, path string, parkIt bool) string {
		hr := harness.NewHTTPRequest(model.ReqSpec{Method: method, Path: path}, "c12")
		if method == "OPTIONS" {
			hr.Header.Set("Origin", "http://a.com")
			hr.Header.Set("Access-Control-Request-Method", "GET")
		}
		if parkIt {
			hr.Header.Set("X-Park", "1")
		}
		w := httptest.NewRecorder()
		pan := ""
		func() {
			defer func() {
				if p := recover(); p != nil {
					pan = fmt.Sprint(p)
				}
			}()
			if c.Via == harness.ViaServe {
				ct.ServeHTTP(w, hr)
			} else {
				ct.Dispatch(w, hr)
			}
		}()
		return fmt.Sprintf("status=%d route=%q id=%q allow=%q acam=%q panic=%q", w.Code, w.Header().Get("X-Route"), w.Header().Get("X-Param"), w.Header().Get("Allow"), w.Header().Get("Access-Control-Allow-Methods"), pan)
	}
	stables := []stableProbe{{"GET", "/stable/a", ""}, {"GET", "/stable/item/7", ""}, {"POST", "/stable/a", ""}, {"DELETE", "/stable/a", ""}, {"GET", "/stable/none", ""}, {"GET", "/dyn/fixed", ""}}
	if c.Options != "" {
		// OPTIONS requests are answered by the filter from the registered routes (computed methods)
		stables = append(stables, stableProbe{"OPTIONS", "/stable/a", ""}, stableProbe{"OPTIONS", "/stable/item/7", ""})
	}
	for i := range stables {
		stables[i].want = outcome(stables[i].method, stables[i].path, false)
	}

	if c.SharedPrefix {
		keep := new(restful.WebService)
		keep.Path("/m/{t}/keep")
		keep.Route(keep.GET("/x").To(handler("keep")))
		ct.Add(keep)
	}
	var mutPanicMu sync.Mutex
	var mutPanics []string
	mutPanic := func(s string) {
		mutPanicMu.Lock()
		mutPanics = append(mutPanics, s)
		mutPanicMu.Unlock()
	}
	// changing targets, one per mutator
	var targets []*c12Target
	var mutate []func(on bool)
	for i, m := range c.Mutators {
		i := i
		if m.Kind == "service" {
			ws := new(restful.WebService)
			root, url := "/m"+strconv.Itoa(i), "/m"+strconv.Itoa(i)+"/x"
			if c.SharedPrefix {
				root, url = "/m/{t}/s"+strconv.Itoa(i), "/m/v/s"+strconv.Itoa(i)+"/x"
			}
			ws.Path(root)
			id := "m" + strconv.Itoa(i) + "-x"
			ws.Route(ws.GET("/x").If(cond).To(handler(id)))
			tg := &c12Target{path: url, routeID: id}
			targets = append(targets, tg)
			mutate = append(mutate, func(on bool) {
				defer func() {
					if p := recover(); p != nil {
						mutPanic(fmt.Sprintf("Add/Remove(on=%v) of the service on %s panicked: %v", on, root, p))
					}
				}()
				if on {
					ct.Add(ws)
				} else {
					ct.Remove(ws)
				}
			})
		} else {
			id := "dyn-r" + strconv.Itoa(i)
			sub := "/r" + strconv.Itoa(i)
			tg := &c12Target{path: "/dyn" + sub, routeID: id}
			targets = append(targets, tg)
			mutate = append(mutate, func(on bool) {
				if on {
					dyn.Route(dyn.GET(sub).If(cond).To(handler(id)))
				} else {
					dyn.RemoveRoute("/dyn"+sub, "GET")
				}
			})
		}
	}
	doMutation := func(i int, on bool) {
		tg := targets[i]
		// the interval is entered into the timeline before the mutation starts (open ended), so a
		// request that runs while it is in progress is classified as overlapping
		tg.mu.Lock()
		t0 := atomic.AddInt64(&clock, 1)
		tg.timeline = append(tg.timeline, c12Interval{t0, 1 << 62, on})
		k := len(tg.timeline) - 1
		tg.mu.Unlock()
		mutate[i](on)
		tg.mu.Lock()
		tg.timeline[k].t1 = atomic.AddInt64(&clock, 1)
		tg.mu.Unlock()
	}

	var vmu sync.Mutex
	addV := func(v *Violation) {
		vmu.Lock()
		if len(vs) < 20 {
			vs = append(vs, v)
		}
		vmu.Unlock()
	}
	var overlapped, total int64
	judgeChanging := func(tg *c12Target, parkIt bool, method string) {
		s := atomic.LoadInt64(&clock)
		got := outcome(method, tg.path, parkIt)
		e := atomic.LoadInt64(&clock)
		atomic.AddInt64(&total, 1)
		present := fmt.Sprintf("status=200 route=%q id=\"\" allow=\"\" acam=\"\" panic=\"\"", tg.routeID)
		isPresent := got == present
		isAbsent := strings.HasPrefix(got, "status=404 route=\"\"") && strings.HasSuffix(got, "panic=\"\"")
		if method == "OPTIONS" {
			// answered by the OPTIONS/CORS filter: the methods listed must be those of a state that existed
			isPresent = strings.HasPrefix(got, "status=200") && (strings.Contains(got, "allow=\"GET\"") || strings.Contains(got, "acam=\"GET\""))
			isAbsent = strings.HasSuffix(got, "panic=\"\"") && !strings.Contains(got, "GET")
		}
		switch tg.verdict(s, e) {
		case "present":
			if !isPresent {
				addV(viol("", "GET %s was registered during the whole request [%d,%d] but is answered {%s}", tg.path, s, e, got))
			}
		case "absent":
			if !isAbsent {
				addV(viol("", "GET %s was not registered during the whole request [%d,%d] but is answered {%s}", tg.path, s, e, got))
			}
		default:
			atomic.AddInt64(&overlapped, 1)
			if !isPresent && !isAbsent {
				addV(viol("", "GET %s overlapped a change of its target and is answered {%s}: neither the registered nor the unregistered answer", tg.path, got))
			}
		}
	}

	labels := []string{"router_" + c.Router, "via_" + c.Via}
	done := make(chan struct{})
	var wg sync.WaitGroup
	if c.Stepped != nil {
		labels = append(labels, "stepped_"+c.Stepped.Point+"_"+c.Stepped.Mutation)
		doMutation(0, true)
		doMutation(1, true)
		ti := 0
		if c.Stepped.Target == "route" {
			ti = 1
		}
		wg.Add(1)
		stepMethod := "GET"
		if c.Stepped.Point == "cond2" {
			stepMethod = "OPTIONS"
		}
		go func() { defer wg.Done(); judgeChanging(targets[ti], true, stepMethod) }()
		select {
		case <-parked:
			mdone := make(chan struct{})
			go func() {
				defer close(mdone)
				switch c.Stepped.Mutation {
				case "remove_service":
					doMutation(0, false)
				case "remove_route":
					doMutation(1, false)
				default:
					other := new(restful.WebService)
					other.Path("/other")
					other.Route(other.GET("/").To(handler("other")))
					atomic.AddInt64(&clock, 1)
					ct.Add(other)
					atomic.AddInt64(&clock, 1)
				}
			}()
			if (c.Stepped.Point == "cond" || c.Stepped.Point == "cond2") && c.Stepped.Mutation != "remove_route" {
				// the parked request holds the container's read lock: a container mutation can only
				// complete after the request left selection; give it a moment to queue up, then resume
				time.Sleep(2 * time.Millisecond)
				close(release)
				<-mdone
			} else {
				<-mdone // must complete although the request is still in flight
				close(release)
			}
		case <-time.After(30 * time.Second):
			inconclusive("C12", "TestC12", "stepped schedule: the request did not reach the pause point "+c.Stepped.Point+" within 30s")
			close(release)
		}
		go func() { wg.Wait(); close(done) }()
	} else {
		for i := range c.Mutators {
			doMutation(i, true)
		}
		for g := 0; g < c.Servers; g++ {
			wg.Add(1)
			go func(g int) {
				defer wg.Done()
				n := len(stables) + len(targets)
				for i := 0; i < c.Requests; i++ {
					k := (g*7 + i*13) % n
					if k < len(stables) {
						p := stables[k]
						if got := outcome(p.method, p.path, false); got != p.want {
							addV(viol("", "%s %s is not being changed; quiet answer {%s}, answer during changes {%s}", p.method, p.path, p.want, got))
						}
					} else {
						m := "GET"
						if c.Options != "" && (g+i)%3 == 0 {
							m = "OPTIONS"
						}
						judgeChanging(targets[k-len(stables)], false, m)
					}
				}
			}(g)
		}
		for i, m := range c.Mutators {
			wg.Add(1)
			go func(i int, m c12Mutator) {
				defer wg.Done()
				on := true
				for k := 0; k < m.Toggles; k++ {
					on = !on
					doMutation(i, on)
					// the mutator asks for its own target right after the change has returned: nobody
					// else changes this target, so the answer must be the new state
					judgeChanging(targets[i], false, "GET")
					if k%8 == 0 {
						runtime.Gosched()
					}
				}
			}(i, m)
		}
		go func() { wg.Wait(); close(done) }()
	}
	select {
	case <-done:
	case <-time.After(120 * time.Second):
		buf := make([]byte, 1<<20)
		buf = buf[:runtime.Stack(buf, true)]
		dump := string(buf)
		if strings.Contains(dump, "sync.(*RWMutex)") || strings.Contains(dump, "chan send") || strings.Contains(dump, "chan receive") {
			addV(viol("", "goroutines did not finish within 120s; dump shows blocked goroutines:\n%s", truncate([]byte(dump), 3000)))
		} else {
			inconclusive("C12", "TestC12", "goroutines did not finish within 120s and the dump shows no blocked goroutine")
		}
	}
	mutPanicMu.Lock()
	for _, m := range mutPanics {
		addV(viol("", "%s", m))
	}
	mutPanicMu.Unlock()
	if c.SharedPrefix {
		labels = append(labels, "changing_services_share_a_mux_pattern")
		if len(vs) == 0 { // (a container that is already known to be wedged is not asked again)
			if got := outcome("GET", "/m/v/keep/x", false); !strings.HasPrefix(got, "status=200 route=\"keep\"") {
				addV(viol("", "GET /m/v/keep/x on the never-changing service next to the changing ones: %s", got))
			}
		}
	}
	if len(vs) == 0 {
		// after everything has finished the final registration state is known exactly
		for _, tg := range targets {
			judgeChanging(tg, false, "GET")
		}
	}
	nontrivial := atomic.LoadInt64(&overlapped) > 0 || c.Stepped != nil
	if atomic.LoadInt64(&overlapped) > 0 {
		labels = append(labels, "request_overlapped_a_mutation")
	}
	st.Label("requests_to_changing_targets", atomic.LoadInt64(&total))
	st.Label("requests_overlapping_a_mutation", atomic.LoadInt64(&overlapped))
	st.Case(c, nontrivial, labels...)
	return vs
}

func TestC12(t *testing.T) {
	rapid.Check(t, func(t *rapid.T) {
		harness.ResetGlobals()
		c := genC12(t)
		saveRunning("C12", "TestC12", c)
		report(t, "C12", "TestC12", c, checkC12(c))
	})
}
