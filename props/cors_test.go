package props

import (
	"net/http/httptest"
	"strconv"
	"strings"
	"testing"

	restful "github.com/emicklei/go-restful/v3"
	"pgregory.net/rapid"

	"verif/internal/gen"
	"verif/internal/harness"
	"verif/internal/model"
	"verif/internal/stats"
)

// C08 – CORS headers are granted only to allowed origins, echoing the origin.
// C09 – a preflight is answered by the filter alone and grants only what is allowed.

func init() {
	registerPart("C08", "TestC08", jsonReplay(func(c CORSCase) []*Violation { return checkCORS(c, "C08") }))
	registerPart("C09", "TestC09", jsonReplay(func(c CORSCase) []*Violation { return checkCORS(c, "C09") }))
}

// CORSSpec configures the filter.
type CORSSpec struct {
	Domains  []string `json:"domains,omitempty"`
	HasFunc  bool     `json:"has_func,omitempty"`
	FuncSet  []string `json:"func_set,omitempty"` // the predicate: case-insensitive membership
	Cookies  bool     `json:"cookies,omitempty"`
	Expose   []string `json:"expose,omitempty"`
	MaxAge   int      `json:"max_age,omitempty"`
	Methods  []string `json:"methods,omitempty"` // empty: computed from the container
	Headers  []string `json:"headers,omitempty"` // allowed request headers
	NoContnr bool     `json:"-"`
	// UseDefault: the filter's Container field stays nil and the generated container is the
	// package's DefaultContainer (computed methods then come from restful.DefaultContainer)
	UseDefault bool `json:"use_default,omitempty"`
}

// CORSReq is one request of the sequence.
type CORSReq struct {
	Method    string `json:"method"`
	Path      string `json:"path"`
	HasOrigin bool   `json:"has_origin,omitempty"`
	Origin    string `json:"origin,omitempty"`
	ACRM      string `json:"acrm,omitempty"`
	ACRH      string `json:"acrh,omitempty"`
	HasACRH   bool   `json:"has_acrh,omitempty"`
}

// CORSCase is a filter configuration, a table and a sequence of requests.
type CORSCase struct {
	Router string          `json:"router"`
	Spec   CORSSpec        `json:"spec"`
	Table  model.TableSpec `json:"table"`
	Reqs   []CORSReq       `json:"reqs"`
	// Trace: 0 tracing off, 1 tracing on, 2 tracing was on and then TraceLogger(nil) was called
	Trace int `json:"trace,omitempty"`
}

var originPool = []string{"http://a.com", "https://a.com", "http://b.org", "http://sub.a.com", "http://a.com:8080", "https://example.com", "http://localhost:3000"}
var corsHeaderPool = []string{"X-Custom", "Content-Type", "Authorization", "X-Trace-Id", "Accept"}
var corsMethodPool = []string{"GET", "POST", "PUT", "DELETE", "PATCH"}

func (s CORSSpec) allowed(origin string, has bool) bool {
	if !has || origin == "" {
		return false
	}
	pred := func() bool {
		for _, f := range s.FuncSet {
			if strings.EqualFold(f, origin) {
				return true
			}
		}
		return false
	}
	if len(s.Domains) == 0 {
		if s.HasFunc {
			return pred()
		}
		return true
	}
	for _, d := range s.Domains {
		if d == ".*" || strings.EqualFold(d, origin) {
			return true
		}
	}
	if s.HasFunc {
		return pred()
	}
	return false
}

func asciiOnly(s string) bool {
	for _, r := range s {
		if r > 126 || r < 32 {
			return false
		}
	}
	return true
}

func swapCase(s string, mode int) string {
	switch mode {
	case 0:
		return strings.ToUpper(s)
	case 1:
		return strings.ToLower(s)
	}
	b := []byte(s)
	for i := range b {
		if i%2 == 0 {
			b[i] = strings.ToUpper(string(b[i]))[0]
		}
	}
	return string(b)
}

func genOrigin(t *rapid.T, spec CORSSpec) (string, bool, string) {
	var bases []string
	for _, d := range spec.Domains {
		if d != ".*" && len(d) > 2 {
			bases = append(bases, d)
		}
	}
	bases = append(bases, spec.FuncSet...)
	kind := rapid.IntRange(0, 12).Draw(t, "originkind")
	if kind == 12 && len(bases) > 0 {
		// same length, one character replaced: a look-alike such as app-example.com for
		// app.example.com (an entry is a literal, not a pattern)
		e := rapid.SampledFrom(bases).Draw(t, "base")
		var dots []int
		for i := len("https://"); i < len(e); i++ {
			if e[i] == '.' {
				dots = append(dots, i)
			}
		}
		k := rapid.IntRange(len("http://"), len(e)-1).Draw(t, "substpos")
		if len(dots) > 0 && rapid.IntRange(0, 3).Draw(t, "substdot") > 0 {
			k = rapid.SampledFrom(dots).Draw(t, "dotpos")
		}
		r := rapid.SampledFrom([]string{"-", "x", "0"}).Draw(t, "substchar")
		if string(e[k]) == r {
			r = "y"
		}
		return e[:k] + r + e[k+1:], true, "one_character_replaced"
	}
	if kind == 0 {
		return "", false, "absent"
	}
	if len(bases) == 0 || kind == 1 {
		return rapid.SampledFrom(originPool).Draw(t, "poolorigin"), true, "pool"
	}
	e := rapid.SampledFrom(bases).Draw(t, "base")
	switch kind {
	case 2, 3:
		return e, true, "identity"
	case 4:
		return swapCase(e, rapid.IntRange(0, 2).Draw(t, "casemode")), true, "case_variant"
	case 5:
		k := rapid.IntRange(1, len(e)-1).Draw(t, "prefixlen")
		return e[:k], true, "proper_prefix"
	case 6:
		k := rapid.IntRange(1, len(e)-1).Draw(t, "suffixpos")
		return e[k:], true, "proper_suffix"
	case 7:
		suf := rapid.SampledFrom([]string{".evil.io", ":8443", "/", "munity", "@evil.io", " "}).Draw(t, "appended")
		return e + suf, true, "superstring_suffix"
	case 8:
		pre := rapid.SampledFrom([]string{"evil-", "http://evil.io/?", "x", " "}).Draw(t, "prepended")
		return pre + e, true, "superstring_prefix"
	case 9:
		if strings.HasPrefix(e, "http://") {
			return "https://" + strings.TrimPrefix(e, "http://"), true, "scheme_swap"
		}
		return "http://" + strings.TrimPrefix(e, "https://"), true, "scheme_swap"
	case 10:
		return "null", true, "null"
	}
	s := rapid.StringN(1, 12, 40).Draw(t, "anyorigin")
	if !asciiOnly(s) {
		s = "x" // non-ASCII case folding is outside what the statement pins down
	}
	return s, true, "arbitrary"
}

func genCORSCase(t *rapid.T, preflightHeavy bool) CORSCase {
	c := CORSCase{Router: rapid.SampledFrom([]string{model.Curly, model.JSR311}).Draw(t, "router")}
	nd := rapid.SampledFrom([]int{0, 1, 1, 2, 2, 3, 4}).Draw(t, "ndomains")
	for i := 0; i < nd; i++ {
		if rapid.IntRange(0, 11).Draw(t, "blankdomain") == 0 {
			// a blank entry, e.g. from strings.Split(os.Getenv("UNSET"), ","): it restricts, and matches nothing
			c.Spec.Domains = append(c.Spec.Domains, rapid.SampledFrom([]string{"", " "}).Draw(t, "blank"))
			continue
		}
		c.Spec.Domains = append(c.Spec.Domains, rapid.SampledFrom(originPool).Draw(t, "domain"))
	}
	if nd > 0 && rapid.IntRange(0, 9).Draw(t, "wildcard") == 0 {
		pos := rapid.IntRange(0, nd-1).Draw(t, "wildpos")
		c.Spec.Domains[pos] = ".*"
	}
	if rapid.IntRange(0, 3).Draw(t, "hasfunc") == 0 {
		c.Spec.HasFunc = true
		nf := rapid.IntRange(0, 2).Draw(t, "nfunc")
		for i := 0; i < nf; i++ {
			c.Spec.FuncSet = append(c.Spec.FuncSet, rapid.SampledFrom(originPool).Draw(t, "funcdomain"))
		}
	}
	c.Spec.Cookies = rapid.Bool().Draw(t, "cookies")
	c.Spec.UseDefault = rapid.IntRange(0, 4).Draw(t, "usedefault") == 0
	ne := rapid.IntRange(0, 2).Draw(t, "nexpose")
	for i := 0; i < ne; i++ {
		c.Spec.Expose = append(c.Spec.Expose, rapid.SampledFrom([]string{"X-Total", "X-Page", "ETag"}).Draw(t, "expose"))
	}
	c.Spec.MaxAge = rapid.SampledFrom([]int{0, 0, 3600, 1}).Draw(t, "maxage")
	if rapid.IntRange(0, 1).Draw(t, "methodsconfigured") == 0 {
		nm := rapid.IntRange(1, 3).Draw(t, "nmethods")
		for i := 0; i < nm; i++ {
			c.Spec.Methods = append(c.Spec.Methods, rapid.SampledFrom(corsMethodPool).Draw(t, "allowedmethod"))
		}
	}
	switch rapid.IntRange(0, 5).Draw(t, "headerscfg") {
	case 0:
	case 1:
		c.Spec.Headers = []string{"*"}
	default:
		nh := rapid.IntRange(1, 3).Draw(t, "nheaders")
		for i := 0; i < nh; i++ {
			c.Spec.Headers = append(c.Spec.Headers, rapid.SampledFrom(corsHeaderPool).Draw(t, "allowedheader"))
		}
	}
	cfg := gen.Common()
	cfg.Conds, cfg.OddMethods = false, false
	cfg.MaxServices, cfg.MaxRoutes = 2, 6
	// root paths may contain plain variables (/tenants/{t}/users): the methods computed for a
	// preflight are those routable at the URL, whatever the root looks like
	cfg.RootVars = rapid.Bool().Draw(t, "rootvars")
	c.Table = gen.Table(t, cfg)
	c.Trace = rapid.SampledFrom([]int{0, 0, 0, 1, 2}).Draw(t, "trace")
	n := rapid.IntRange(1, 10).Draw(t, "nreqs")
	for i := 0; i < n; i++ {
		var r CORSReq
		base := gen.Request(t, c.Table, cfg)
		r.Path = base.Path
		if !model.CleanPath(r.Path) {
			r.Path = "/"
		}
		r.Origin, r.HasOrigin, _ = genOrigin(t, c.Spec)
		pf := 35
		if preflightHeavy {
			pf = 70
		}
		if rapid.IntRange(0, 99).Draw(t, "preflight") < pf {
			r.Method = "OPTIONS"
			if rapid.IntRange(0, 9).Draw(t, "hasacrm") > 0 {
				if len(c.Spec.Methods) > 0 && rapid.Bool().Draw(t, "acrmallowed") {
					r.ACRM = rapid.SampledFrom(c.Spec.Methods).Draw(t, "acrm")
				} else if rapid.Bool().Draw(t, "acrmfromroute") {
					r.ACRM = base.Method
				} else {
					r.ACRM = rapid.SampledFrom(corsMethodPool).Draw(t, "acrm")
				}
			}
			nh := rapid.SampledFrom([]int{0, 0, 1, 1, 2, 3, 5}).Draw(t, "nreqheaders")
			if nh > 0 {
				var hs []string
				for j := 0; j < nh; j++ {
					var h string
					if len(c.Spec.Headers) > 0 && c.Spec.Headers[0] != "*" && rapid.IntRange(0, 9).Draw(t, "hdrallowed") < 7 {
						h = rapid.SampledFrom(c.Spec.Headers).Draw(t, "reqheader")
					} else {
						h = rapid.SampledFrom(append([]string{"X-Other", "X-Csrf-Exempt", "X"}, corsHeaderPool...)).Draw(t, "reqheader") // "X": the shortest header list there is
					}
					switch rapid.IntRange(0, 11).Draw(t, "hdrderive") {
					case 0: // an allowed name is not a prefix pattern ...
						h += rapid.SampledFrom([]string{"-Extra", "s", "-"}).Draw(t, "hdrext")
					case 1: // ... nor is a requested name one
						if len(h) > 2 {
							h = h[:rapid.IntRange(1, len(h)-1).Draw(t, "hdrcut")]
						}
					}
					h = swapCase(h, rapid.IntRange(0, 3).Draw(t, "hdrcase"))
					h = strings.Repeat(" ", rapid.IntRange(0, 1).Draw(t, "hdrsp1")) + h + strings.Repeat(" ", rapid.IntRange(0, 1).Draw(t, "hdrsp2"))
					hs = append(hs, h)
				}
				r.ACRH, r.HasACRH = strings.Join(hs, ","), true
			}
			if rapid.IntRange(0, 11).Draw(t, "lookalike") == 0 {
				// method tokens are case-sensitive: this is no OPTIONS request, hence no preflight
				r.Method = rapid.SampledFrom([]string{"options", "Options"}).Draw(t, "lookalikemethod")
			}
		} else {
			r.Method = base.Method
		}
		c.Reqs = append(c.Reqs, r)
	}
	return c
}

func (r CORSReq) spec() model.ReqSpec {
	q := model.ReqSpec{Method: r.Method, Path: r.Path}
	if r.HasOrigin {
		q.Headers = append(q.Headers, model.H{K: "Origin", V: r.Origin})
	}
	if r.ACRM != "" {
		q.Headers = append(q.Headers, model.H{K: "Access-Control-Request-Method", V: r.ACRM})
	}
	if r.HasACRH {
		q.Headers = append(q.Headers, model.H{K: "Access-Control-Request-Headers", V: r.ACRH})
	}
	return q
}

func corsHeaders(h map[string][]string) map[string][]string {
	out := map[string][]string{}
	for k, v := range h {
		if strings.HasPrefix(k, "Access-Control-") {
			out[k] = v
		}
	}
	return out
}

func headersString(h map[string][]string, skipCORS bool) string {
	var ks []string
	for k := range h {
		if skipCORS && strings.HasPrefix(k, "Access-Control-") {
			continue
		}
		ks = append(ks, k)
	}
	ks = model.SortedSet(ks)
	var sb strings.Builder
	for _, k := range ks {
		sb.WriteString(k + "=" + strings.Join(h[k], "|") + ";")
	}
	return sb.String()
}

// keepsHeaders reports whether every non-CORS header of the response without the filter is on
// the response with the filter, with the same values. For a granted request the statements
// name the CORS headers that are added; they do not forbid a companion such as Vary: Origin.
func keepsHeaders(with, without map[string][]string) bool {
	for k, v := range without {
		if strings.HasPrefix(k, "Access-Control-") {
			continue
		}
		if strings.Join(with[k], "|") != strings.Join(v, "|") {
			return false
		}
	}
	return true
}

func checkCORS(c CORSCase, property string) (vs []*Violation) {
	st := stats.For(property, "Test"+property)
	spec := c.Spec
	recF, recP := harness.NewRecorder(), harness.NewRecorder()
	// twin without the filter (one recording container filter after the CORS position)
	plain, p1 := buildWith(c.Table, &harness.Options{Router: c.Router, ContainerFilters: 1}, recP, true)
	if p1 != nil {
		return []*Violation{viol("", "building the table panicked: %v", p1)}
	}
	// container with the filter: CORS first, then the same recording filter
	cors := restful.CrossOriginResourceSharing{
		ExposeHeaders:  spec.Expose,
		AllowedHeaders: spec.Headers,
		AllowedDomains: spec.Domains,
		AllowedMethods: spec.Methods,
		CookiesAllowed: spec.Cookies,
		MaxAge:         spec.MaxAge,
	}
	if spec.HasFunc {
		set := spec.FuncSet
		cors.AllowedDomainFunc = func(origin string) bool {
			for _, f := range set {
				if strings.EqualFold(f, origin) {
					return true
				}
			}
			return false
		}
	}
	withF, p2 := buildWith(c.Table, &harness.Options{Router: c.Router, ContainerFilters: 1, Setup: func(ct *restful.Container) {
		if spec.UseDefault {
			restful.DefaultContainer = ct
		} else {
			cors.Container = ct
		}
		ct.Filter(cors.Filter)
		// the variable the filter was taken from is reused for something else afterwards: the
		// installed filter keeps the configuration it was installed with
		cors.AllowedDomains, cors.AllowedDomainFunc = nil, nil
		cors.AllowedHeaders, cors.AllowedMethods = []string{"*"}, []string{"GET", "POST", "PUT", "DELETE", "PATCH"}
		cors.CookiesAllowed, cors.MaxAge, cors.ExposeHeaders = !spec.Cookies, 7, []string{"X-Reused"}
	}}, recF, true)
	defer harness.ResetGlobals()
	if p2 != nil {
		return []*Violation{viol("", "building the table panicked: %v", p2)}
	}

	nontrivial := false
	labels := []string{"router_" + c.Router, "trace_" + strconv.Itoa(c.Trace)}
	urls := map[string]string{}
	switch c.Trace {
	case 1:
		harness.SetTrace(true)
	case 2:
		harness.SetTrace(true)
		harness.SetTraceOff(true)
	}
	for i, r := range c.Reqs {
		id := strconv.Itoa(i)
		q := r.spec()
		o := harness.Do(withF, recF, q, harness.ViaDispatch, id)
		tw := harness.Do(plain, recP, q, harness.ViaDispatch, id)
		where := "req#" + id + " " + r.Method + " " + strconv.Quote(r.Path) + " Origin=" + strconv.Quote(r.Origin)
		if !r.HasOrigin {
			where += "(absent)"
		}
		if o.Panic != "" {
			vs = append(vs, viol("", "%s: panic: %s", where, o.Panic))
			continue
		}
		allowed := spec.allowed(r.Origin, r.HasOrigin)
		ch := corsHeaders(o.Header)
		isPreflight := allowed && r.Method == "OPTIONS" && r.ACRM != ""
		switch {
		case !allowed:
			labels = append(labels, "origin_not_allowed")
			if len(ch) > 0 {
				vs = append(vs, viol("", "%s is not allowed by %+v, yet the response carries %v", where, spec, ch))
			}
			if o.Status != tw.Status || string(o.Body) != string(tw.Body) || headersString(o.Header, false) != headersString(tw.Header, false) || strings.Join(o.Ran, ",") != strings.Join(tw.Ran, ",") || len(o.Events) != len(tw.Events) {
				vs = append(vs, viol("", "%s is not allowed, but the request is not processed as if the filter were absent: with{status=%d ran=%v headers=%s body=%q} without{status=%d ran=%v headers=%s body=%q}",
					where, o.Status, o.Ran, headersString(o.Header, false), o.Body, tw.Status, tw.Ran, headersString(tw.Header, false), tw.Body))
			}
		default:
			labels = append(labels, "origin_allowed")
			if v, ok := ch["Access-Control-Allow-Origin"]; ok {
				if len(v) != 1 || v[0] != r.Origin {
					vs = append(vs, viol("", "%s: Access-Control-Allow-Origin is %q, expected the origin verbatim, once", where, v))
				}
			}
			if v, ok := ch["Access-Control-Allow-Credentials"]; ok && (!spec.Cookies || len(v) != 1 || v[0] != "true") {
				vs = append(vs, viol("", "%s: Access-Control-Allow-Credentials=%q with CookiesAllowed=%v", where, v, spec.Cookies))
			}
		}
		if property == "C09" && allowed {
			if isPreflight {
				labels = append(labels, "preflight")
				// answered by the filter alone
				if len(o.Ran) > 0 || len(o.Events) > 0 {
					vs = append(vs, viol("", "%s: preflight was passed down the chain: events %v", where, o.Events))
				}
				if o.Status != 200 || len(o.Body) != 0 {
					vs = append(vs, viol("", "%s: preflight answered with status %d body %q (a later filter, route or the service-error writer ran)", where, o.Status, o.Body))
				}
				// allowed methods: configured, or the methods routable at that URL
				allowedMethods := setOf(spec.Methods)
				if len(spec.Methods) == 0 {
					allowedMethods = map[string]bool{}
					for _, m := range append([]string{"GET", "POST", "PUT", "PATCH", "DELETE", "HEAD", "OPTIONS"}, tableMethods(c.Table)...) {
						po := harness.Do(plain, recP, model.ReqSpec{Method: m, Path: r.Path}, harness.ViaDispatch, id+"p"+m)
						if len(po.Ran) > 0 || (po.Status != 404 && po.Status != 405) {
							allowedMethods[m] = true
						}
					}
					labels = append(labels, "preflight_computed_methods")
					if prev, ok := urls["computed"]; ok && prev != setString(allowedMethods) {
						nontrivial = true
						labels = append(labels, "sequence_with_differing_routable_sets")
					}
					urls["computed"] = setString(allowedMethods)
				}
				methodOK := allowedMethods[r.ACRM]
				offending := 0
				if r.HasACRH && len(r.ACRH) > 0 {
					for _, h := range strings.Split(r.ACRH, ",") {
						h = strings.Trim(h, " ")
						ok := false
						for _, a := range spec.Headers {
							if a == "*" || strings.EqualFold(a, h) {
								ok = true
							}
						}
						if !ok {
							offending++
						}
					}
				}
				grant := methodOK && offending == 0
				if (methodOK && offending == 1) || (!methodOK && offending == 0) {
					nontrivial = true
					labels = append(labels, "refused_for_exactly_one_reason")
				}
				if grant {
					labels = append(labels, "preflight_granted")
					if len(ch["Access-Control-Allow-Origin"]) != 1 || len(ch["Access-Control-Allow-Methods"]) != 1 {
						vs = append(vs, viol("", "%s ACRM=%s ACRH=%q: preflight must be granted (allowed methods [%s], allowed headers %v) but the response carries %v", where, r.ACRM, r.ACRH, setString(allowedMethods), spec.Headers, ch))
					} else {
						got := setOf(harness.ParseList(ch["Access-Control-Allow-Methods"][0]))
						if setString(got) != setString(allowedMethods) {
							vs = append(vs, viol("", "%s ACRM=%s: Access-Control-Allow-Methods=[%s], allowed at this URL are [%s]", where, r.ACRM, setString(got), setString(allowedMethods)))
						}
					}
					if _, ok := ch["Access-Control-Allow-Headers"]; !ok {
						vs = append(vs, viol("", "%s: granted preflight lacks Access-Control-Allow-Headers", where))
					}
				} else {
					labels = append(labels, "preflight_refused")
					if len(ch) > 0 {
						vs = append(vs, viol("", "%s ACRM=%s ACRH=%q: preflight must be refused (allowed methods [%s], allowed headers %v) but the response carries %v", where, r.ACRM, r.ACRH, setString(allowedMethods), spec.Headers, ch))
					}
				}
			} else {
				labels = append(labels, "actual_request")
				// the chain continues exactly as without the filter, plus the actual-request headers once each
				if o.Status != tw.Status || string(o.Body) != string(tw.Body) || strings.Join(o.Ran, ",") != strings.Join(tw.Ran, ",") || !keepsHeaders(o.Header, tw.Header) {
					vs = append(vs, viol("", "%s: actual request is not processed as without the filter: with{status=%d ran=%v body=%q} without{status=%d ran=%v body=%q}", where, o.Status, o.Ran, o.Body, tw.Status, tw.Ran, tw.Body))
				}
				want := map[string]string{"Access-Control-Allow-Origin": r.Origin}
				if spec.Cookies {
					want["Access-Control-Allow-Credentials"] = "true"
				}
				if len(spec.Expose) > 0 {
					want["Access-Control-Expose-Headers"] = strings.Join(spec.Expose, ",")
				}
				if spec.MaxAge > 0 {
					want["Access-Control-Max-Age"] = strconv.Itoa(spec.MaxAge)
				}
				for k, v := range want {
					if got := ch[k]; len(got) != 1 || got[0] != v {
						vs = append(vs, viol("", "%s: expected %s: %q exactly once, got %q", where, k, v, got))
					}
				}
				for k := range ch {
					if _, ok := want[k]; !ok {
						vs = append(vs, viol("", "%s: unexpected CORS header %s=%q on an actual request", where, k, ch[k]))
					}
				}
			}
		}
		if property == "C08" && r.HasOrigin {
			// near miss of an allowed entry, or equal up to case
			for _, d := range append(append([]string{}, spec.Domains...), spec.FuncSet...) {
				if d == ".*" || d == r.Origin {
					continue
				}
				if strings.EqualFold(d, r.Origin) || strings.Contains(r.Origin, d) || strings.Contains(d, r.Origin) ||
					strings.TrimPrefix(strings.TrimPrefix(d, "https://"), "http://") == strings.TrimPrefix(strings.TrimPrefix(r.Origin, "https://"), "http://") {
					nontrivial = true
					labels = append(labels, "near_miss_or_case_variant")
					break
				}
			}
		}
	}
	if property == "C08" && len(vs) == 0 {
		// two filters with different predicates on one container (one per WebService): what one
		// filter's configuration allows says nothing about the other's
		x, y := originPool[len(c.Reqs)%len(originPool)], originPool[(len(c.Reqs)+1)%len(originPool)]
		ct2 := restful.NewContainer()
		for _, sv := range [][2]string{{"/p", x}, {"/q", y}} {
			allowed := sv[1]
			ws := new(restful.WebService)
			ws.Path(sv[0])
			f := restful.CrossOriginResourceSharing{AllowedDomainFunc: func(o string) bool { return o == allowed }, CookiesAllowed: true, Container: ct2}
			ws.Filter(f.Filter)
			ws.Route(ws.GET("/x").To(func(req *restful.Request, resp *restful.Response) { resp.WriteHeader(200) }))
			ct2.Add(ws)
		}
		send := func(path, origin string) []string {
			hr := harness.NewHTTPRequest(model.ReqSpec{Method: "GET", Path: path, Headers: []model.H{{K: "Origin", V: origin}}}, "x")
			w := httptest.NewRecorder()
			func() { defer func() { recover() }(); ct2.Dispatch(w, hr) }()
			return w.Header()["Access-Control-Allow-Origin"]
		}
		before, granted, after := send("/q/x", x), send("/p/x", x), send("/q/x", x)
		if len(before) != 0 || len(after) != 0 || len(granted) != 1 || granted[0] != x {
			vs = append(vs, viol("", "two filters on one container, /p allows only %q, /q only %q; Origin %q: /q answers Allow-Origin %v, then /p %v, then /q again %v", x, y, x, before, granted, after))
		}
	}
	st.Case(c, nontrivial, labels...)
	return vs
}

func tableMethods(tb model.TableSpec) []string {
	var ms []string
	for _, s := range tb.Services {
		for _, r := range s.Routes {
			ms = append(ms, r.Method)
		}
	}
	return ms
}

func TestC08(t *testing.T) {
	rapid.Check(t, func(t *rapid.T) {
		harness.ResetGlobals()
		c := genCORSCase(t, false)
		report(t, "C08", "TestC08", c, checkCORS(c, "C08"))
	})
}

func TestC09(t *testing.T) {
	rapid.Check(t, func(t *rapid.T) {
		harness.ResetGlobals()
		c := genCORSCase(t, true)
		report(t, "C09", "TestC09", c, checkCORS(c, "C09"))
	})
}
