package props

import (
	"bytes"
	"compress/gzip"
	"fmt"
	"io"
	"net/http"
	"net/http/httptest"
	"sort"
	"strconv"
	"strings"
	"sync"
	"testing"

	restful "github.com/emicklei/go-restful/v3"
	"pgregory.net/rapid"

	"verif/internal/gen"
	"verif/internal/harness"
	"verif/internal/model"
	"verif/internal/stats"
)

// C19 – serving a request is a pure function of configuration and request.

func init() {
	registerPart("C19", "TestC19", jsonReplay(func(c C19Case) []*Violation { return checkC19(c, "TestC19") }))
	registerPart("C19", "TestC19Conc", jsonReplay(func(c C19Case) []*Violation { return checkC19(c, "TestC19Conc") }))
}

// C19Case is a configuration and a multiset of requests with two orders.
type C19Case struct {
	Router   string          `json:"router"`
	Table    model.TableSpec `json:"table"`
	NCF      int             `json:"ncf"`  // container filters copying X-Tag into an attribute
	CORS     bool            `json:"cors"` // CORS filter with computed methods
	Options  bool            `json:"options_filter"`
	Encoding bool            `json:"encoding"`
	Reqs     []model.ReqSpec `json:"reqs"`
	Order1   []int           `json:"order1"`
	Order2   []int           `json:"order2"`
	Via      string          `json:"via,omitempty"`
	Repeat   int             `json:"repeat"`  // how often the multiset is cycled in the long history
	Workers  int             `json:"workers"` // concurrent part
	// Modes: how each route's function answers (by route id): 0 raw bytes, 1 WriteEntity,
	// 2 WriteHeaderAndEntity, 3 WriteErrorString, 4 WriteServiceError, 5 WriteAsJson,
	// 6 ReadEntity first, then raw bytes that echo what was read, 7 the raw request body is read
	// and echoed, 8 BodyParameter("a") and then the rest of the raw body
	Modes map[string]int `json:"modes,omitempty"`
	// GzBody: indices of requests whose body travels gzip-encoded (Content-Encoding: gzip)
	GzBody []int `json:"gz_body,omitempty"`
	// Provider: compressor provider, installed afresh for the reference requests and for every history
	Provider string `json:"provider,omitempty"` // "" / "pool": sync.Pool, "bounded": NewBoundedCachedCompressors(1, 1)
	// Compact: PrettyPrintResponses is switched off (entities go through the streaming encoders)
	Compact bool `json:"compact,omitempty"`
	// FailAt: per request, the number of response bytes after which the client's connection
	// fails (every later write returns an error); -1 or absent: never. What such a client got
	// is compared like everything else, and no other request may notice.
	FailAt []int `json:"fail_at,omitempty"`
}

// c19FailingWriter accepts a number of body bytes and fails from then on.
type c19FailingWriter struct {
	*httptest.ResponseRecorder
	left int
}

func (w *c19FailingWriter) Write(p []byte) (int, error) {
	if len(p) <= w.left {
		w.left -= len(p)
		return w.ResponseRecorder.Write(p)
	}
	n := w.left
	w.left = 0
	if n > 0 {
		w.ResponseRecorder.Write(p[:n])
	}
	return n, io.ErrClosedPipe
}
func (w *c19FailingWriter) WriteString(p string) (int, error) { return w.Write([]byte(p)) }

// c19Entity is what the entity-writing route functions answer with.
type c19Entity struct {
	Route  string
	Sel    string
	Params string
	Tags   string
}

func genC19(t *rapid.T, concurrent bool) C19Case {
	c := C19Case{Router: rapid.SampledFrom([]string{model.Curly, model.JSR311}).Draw(t, "router")}
	cfg := gen.ForRouter(c.Router)
	cfg.MaxServices, cfg.MaxRoutes = 3, 5
	c.Table = gen.Table(t, cfg)
	for si := range c.Table.Services {
		c.Table.Services[si].NFilters = rapid.IntRange(0, 2).Draw(t, "svcfilters")
		for ri := range c.Table.Services[si].Routes {
			c.Table.Services[si].Routes[ri].NFilters = rapid.IntRange(0, 2).Draw(t, "routefilters")
			if m := rapid.SampledFrom([]int{0, 0, 0, 1, 1, 1, 2, 3, 4, 5, 6, 6, 7, 7, 8}).Draw(t, "writemode"); m != 0 {
				if c.Modes == nil {
					c.Modes = map[string]int{}
				}
				c.Modes[c.Table.Services[si].Routes[ri].ID] = m
			}
		}
	}
	c.NCF = rapid.IntRange(0, 7).Draw(t, "ncf")
	c.CORS = rapid.Bool().Draw(t, "cors")
	c.Options = !c.CORS && rapid.Bool().Draw(t, "optionsfilter")
	c.Encoding = rapid.Bool().Draw(t, "encoding")
	c.Via = rapid.SampledFrom([]string{harness.ViaDispatch, harness.ViaServe}).Draw(t, "via")
	n := rapid.IntRange(3, 40).Draw(t, "nreqs")
	for i := 0; i < n; i++ {
		r := gen.Request(t, c.Table, cfg)
		if !model.CleanPath(r.Path) {
			r.Path = "/"
		}
		r.Headers = append(r.Headers, model.H{K: "X-Tag", V: "t" + strconv.Itoa(i)})
		if rapid.IntRange(0, 5).Draw(t, "richaccept") == 0 {
			// a longer Accept header than gen.Request writes: three to five ranges, some with
			// q-values (also unparsable ones); what a route that writes an entity negotiates on
			var parts []string
			for k, nr := 0, rapid.IntRange(3, 5).Draw(t, "naccept"); k < nr; k++ {
				parts = append(parts, rapid.SampledFrom(append([]string{"*/*", "text/html"}, gen.MediaPool...)).Draw(t, "accmedia")+
					rapid.SampledFrom([]string{"", "", "", ";q=0.9", ";q=0.5", "; q=0.1", ";q=abc", ";level=1"}).Draw(t, "accq"))
			}
			var hs []model.H
			for _, h := range r.Headers {
				if h.K != "Accept" {
					hs = append(hs, h)
				}
			}
			r.Headers = append(hs, model.H{K: "Accept", V: strings.Join(parts, rapid.SampledFrom([]string{",", ", "}).Draw(t, "accsep"))})
		}
		switch rapid.IntRange(0, 5).Draw(t, "reqflavour") {
		case 0:
			if c.CORS || c.Options {
				r.Method = "OPTIONS"
				r.Body = ""
				r.Headers = append(r.Headers, model.H{K: "Origin", V: "http://a.com"}, model.H{K: "Access-Control-Request-Method", V: rapid.SampledFrom([]string{"GET", "POST", "PUT", "DELETE"}).Draw(t, "acrm")})
			}
		case 1:
			r.Headers = append(r.Headers, model.H{K: "Origin", V: "http://a.com"})
		case 2:
			if c.Encoding {
				r.Headers = append(r.Headers, model.H{K: "Accept-Encoding", V: rapid.SampledFrom([]string{"gzip", "deflate"}).Draw(t, "ae")})
			}
		}
		if r.Body != "" && rapid.IntRange(0, 5).Draw(t, "formbody") == 0 {
			// a form: filters and route functions may look at it, each request brings its own
			var hs []model.H
			for _, h := range r.Headers {
				if h.K != "Content-Type" {
					hs = append(hs, h)
				}
			}
			r.Headers = append(hs, model.H{K: "Content-Type", V: "application/x-www-form-urlencoded"})
			r.Body = "a=" + strconv.Itoa(i) + "&b=2"
		}
		if rapid.IntRange(0, 7).Draw(t, "compactone") == 0 {
			r.Headers = append(r.Headers, model.H{K: "X-Compact", V: "1"})
		}
		if rapid.IntRange(0, 7).Draw(t, "inject") == 0 {
			r.Headers = append(r.Headers, model.H{K: "X-Inject", V: "i" + strconv.Itoa(i)})
		}
		if r.Body != "" && rapid.IntRange(0, 3).Draw(t, "gzbody") == 0 {
			c.GzBody = append(c.GzBody, i)
		}
		c.Reqs = append(c.Reqs, r)
	}
	c.Provider = rapid.SampledFrom([]string{"pool", "pool", "pool", "pool", "pool", "pool", "pool", "bounded"}).Draw(t, "provider")
	c.Compact = rapid.IntRange(0, 3).Draw(t, "compact") == 0
	if rapid.IntRange(0, 3).Draw(t, "failingclients") == 0 {
		c.FailAt = make([]int, n)
		for i := range c.FailAt {
			c.FailAt[i] = -1
			if rapid.IntRange(0, 4).Draw(t, "fails") == 0 {
				c.FailAt[i] = rapid.SampledFrom([]int{0, 0, 1, 5, 20, 60}).Draw(t, "failat")
			}
		}
	}
	idx := make([]int, n)
	for i := range idx {
		idx[i] = i
	}
	c.Order1 = rapid.Permutation(idx).Draw(t, "order1")
	c.Order2 = rapid.Permutation(idx).Draw(t, "order2")
	c.Repeat = 1
	if thorough() {
		c.Repeat = rapid.SampledFrom([]int{1, 3, 50}).Draw(t, "repeat")
	} else if rapid.IntRange(0, 19).Draw(t, "long") == 0 {
		c.Repeat = 25
	}
	if concurrent {
		c.Workers = rapid.SampledFrom([]int{8, 12, 16}).Draw(t, "workers")
	}
	return c
}

// c19Retained: a route function may keep the *Request it was given (for work it finishes later);
// what that Request says about its path parameters, attributes and selected route stays what it
// was, whatever is served afterwards. Sequential parts only (one request at a time).
type c19Retained struct {
	req      *restful.Request
	snap     []string
	problems []string
}

func c19Snap(req *restful.Request) []string {
	var ps []string
	for n, v := range req.PathParameters() {
		ps = append(ps, n+"="+v)
	}
	sort.Strings(ps)
	return []string{strings.Join(ps, ","), req.SelectedRoutePath(), fmt.Sprint(req.Attribute("tag")), fmt.Sprint(req.Attribute("stag")), fmt.Sprint(req.Attribute("rtag"))}
}

// check looks at the Request kept from the previous request: something it did not say while it
// was served is another request's (that it says less - a Request the framework has emptied - is
// not what the statement forbids).
func (k *c19Retained) check(req *restful.Request) {
	if k.req != nil {
		now := c19Snap(k.req)
		for i := range now {
			if now[i] != k.snap[i] && now[i] != "" && now[i] != "<nil>" && len(k.problems) < 3 {
				k.problems = append(k.problems, fmt.Sprintf("a Request kept by the route function said %q while it was served and says %q after the next request", k.snap, now))
				break
			}
		}
	}
	k.req, k.snap = req, c19Snap(req)
}

func buildC19(c C19Case) (*restful.Container, interface{}) { return buildC19k(c, nil) }

func buildC19k(c C19Case, retain func(*restful.Request)) (*restful.Container, interface{}) {
	echo := func(id string, req *restful.Request, resp *restful.Response) {
		// a request may add a binding of its own to the map it was handed (filters do that to
		// pass values on); it belongs to this request only
		if v := req.Request.Header.Get("X-Inject"); v != "" {
			if m := req.PathParameters(); m != nil {
				m["injected"] = v
			}
		}
		// SelectedRoute().Metadata() "returns a copy": what a request notes down there is its own
		meta := "-"
		if sr := req.SelectedRoute(); sr != nil {
			if md := sr.Metadata(); md != nil {
				if v := req.Request.Header.Get("X-Inject"); v != "" {
					md["noted"] = v
				}
				meta = fmt.Sprint(sr.Metadata()["noted"])
			}
		}
		// a setting of this response only
		if req.Request.Header.Get("X-Compact") != "" {
			resp.PrettyPrint(false)
		}
		var ps []string
		for k, v := range req.PathParameters() {
			ps = append(ps, k+"="+v)
		}
		sort.Strings(ps)
		sel := req.SelectedRoutePath()
		if retain != nil {
			retain(req)
		}
		doc := ""
		if sr := req.SelectedRoute(); sr != nil {
			doc = sr.Doc()
		}
		resp.Header().Set("X-Route", id)
		text := fmt.Sprintf("route=%s sel=%s doc=%s params=%s tag=%v stag=%v rtag=%v meta=%s", id, sel, doc, strings.Join(ps, ","), req.Attribute("tag"), req.Attribute("stag"), req.Attribute("rtag"), meta)
		ent := c19Entity{Route: id, Sel: sel, Params: strings.Join(ps, ","), Tags: fmt.Sprint(req.Attribute("tag"), req.Attribute("stag"), req.Attribute("rtag"))}
		switch c.Modes[id] {
		case 7, 8:
			form := ""
			if c.Modes[id] == 8 {
				v, err := req.BodyParameter("a")
				form = fmt.Sprintf(" a=%q failed=%v", v, err != nil)
			}
			var raw []byte
			if req.Request.Body != nil {
				raw, _ = io.ReadAll(req.Request.Body)
			}
			resp.WriteHeader(200)
			fmt.Fprintf(resp, "%s%s body=%q", text, form, raw)
		case 6:
			var v map[string]interface{}
			err := req.ReadEntity(&v)
			resp.WriteHeader(200)
			fmt.Fprintf(resp, "%s read=%v failed=%v", text, v, err != nil)
		case 1:
			resp.WriteEntity(ent)
		case 2:
			resp.WriteHeaderAndEntity(201, ent)
		case 3:
			resp.WriteErrorString(409, text)
		case 4:
			resp.WriteServiceError(422, restful.ServiceError{Code: 422, Message: text})
		case 5:
			resp.WriteAsJson(ent)
		default:
			resp.WriteHeader(200)
			fmt.Fprint(resp, text)
		}
	}
	var pan interface{}
	var ct *restful.Container
	func() {
		defer func() { pan = recover() }()
		ct = restful.NewContainer()
		if c.Router == model.JSR311 {
			ct.Router(restful.RouterJSR311{})
		}
		ct.EnableContentEncoding(c.Encoding)
		if c.CORS {
			cors := restful.CrossOriginResourceSharing{AllowedDomains: []string{"http://a.com"}, AllowedHeaders: []string{"X-Tag"}, CookiesAllowed: true, MaxAge: 60, Container: ct}
			ct.Filter(cors.Filter)
		}
		if c.Options {
			ct.Filter(ct.OPTIONSFilter)
		}
		for i := 0; i < c.NCF; i++ {
			ct.Filter(func(req *restful.Request, resp *restful.Response, chain *restful.FilterChain) {
				req.SetAttribute("tag", req.Request.Header.Get("X-Tag"))
				chain.ProcessFilter(req, resp)
			})
		}
		for _, s := range c.Table.Services {
			ws := new(restful.WebService)
			ws.Path(s.Root.String())
			if len(s.Consumes) > 0 {
				ws.Consumes(s.Consumes...)
			}
			if len(s.Produces) > 0 {
				ws.Produces(s.Produces...)
			}
			for i := 0; i < s.NFilters; i++ {
				ws.Filter(func(req *restful.Request, resp *restful.Response, chain *restful.FilterChain) {
					req.SetAttribute("stag", "s:"+req.Request.Header.Get("X-Tag"))
					chain.ProcessFilter(req, resp)
				})
			}
			rec := harness.NewRecorder()
			for _, r := range s.Routes {
				r := r
				rb := harness.NewRoute(ws, r, rec, func(id string, req *restful.Request, resp *restful.Response) { echo(id, req, resp) })
				if r.NFilters > 0 {
					rb.Filter(func(req *restful.Request, resp *restful.Response, chain *restful.FilterChain) {
						req.SetAttribute("rtag", r.ID+":"+req.Request.Header.Get("X-Tag"))
						chain.ProcessFilter(req, resp)
					})
				}
				ws.Route(rb)
			}
			if c.Via != harness.ViaServe {
				ct.ServeMux = newMux() // Dispatch only: keep net/http's mux out of the picture
			}
			ct.Add(ws)
		}
	}()
	return ct, pan
}

var (
	gzMu    sync.Mutex
	gzCache = map[string][]byte{}
)

// gzipped returns the gzip encoding of s (cached: a gzip.Writer costs more than a request).
func gzipped(s string) []byte {
	gzMu.Lock()
	defer gzMu.Unlock()
	if z, ok := gzCache[s]; ok {
		return z
	}
	var b bytes.Buffer
	zw := gzip.NewWriter(&b)
	zw.Write([]byte(s))
	zw.Close()
	gzCache[s] = b.Bytes()
	return gzCache[s]
}

func c19FreshProvider(c C19Case) {
	if c.Provider == "bounded" {
		restful.SetCompressorProvider(restful.NewBoundedCachedCompressors(1, 1))
		return
	}
	restful.SetCompressorProvider(restful.NewSyncPoolCompessors())
}

func c19Send(ct *restful.Container, c C19Case, i int, via string) string {
	r := c.Reqs[i]
	hr := harness.NewHTTPRequest(r, strconv.Itoa(i))
	hr.Header.Del(harness.ReqIDHeader)
	for _, g := range c.GzBody {
		if g == i {
			z := gzipped(r.Body)
			hr.Body = io.NopCloser(bytes.NewReader(z))
			hr.ContentLength = int64(len(z))
			hr.Header.Set("Content-Encoding", "gzip")
		}
	}
	w := httptest.NewRecorder()
	var hw http.ResponseWriter = w
	failing := len(c.FailAt) == len(c.Reqs) && c.FailAt[i] >= 0
	if failing {
		hw = &c19FailingWriter{ResponseRecorder: w, left: c.FailAt[i]}
	}
	pan := ""
	func() {
		defer func() {
			if p := recover(); p != nil {
				pan = fmt.Sprint(p)
			}
		}()
		if via == harness.ViaServe {
			ct.ServeHTTP(hw, hr)
		} else {
			ct.Dispatch(hw, hr)
		}
	}()
	body, derr := decodeBody(w.Header().Get("Content-Encoding"), w.Body.Bytes())
	if failing && w.Header().Get("Content-Encoding") != "" {
		// a coded stream that was cut: how much of it decodes is the decoder's business
		body, derr = nil, nil
	}
	var hs []string
	for k, v := range w.Header() {
		hs = append(hs, k+"="+strings.Join(v, "|"))
	}
	sort.Strings(hs)
	return fmt.Sprintf("status=%d headers=[%s] body=%q decodeErr=%v panic=%q", w.Code, strings.Join(hs, "; "), body, derr, pan)
}

func checkC19(c C19Case, partName string) (vs []*Violation) {
	st := stats.For("C19", partName)
	defer harness.ResetGlobals()
	restful.PrettyPrintResponses = !c.Compact
	n := len(c.Reqs)
	if n == 0 {
		return nil
	}
	validOrder := func(o []int) []int {
		if len(o) != n {
			o = make([]int, n)
			for i := range o {
				o[i] = i
			}
		}
		return o
	}
	c.Order1, c.Order2 = validOrder(c.Order1), validOrder(c.Order2)
	// (1) reference: each request on its own fresh container
	ref := make([]string, n)
	for i := range c.Reqs {
		ct, pan := buildC19(c)
		if pan != nil {
			return []*Violation{viol("", "building the configuration panicked: %v", pan)}
		}
		// "the first request": nothing pooled by an earlier one. Only requests that can reach a
		// compressor need the fresh provider (it is expensive: every first use allocates one).
		touches := c.Reqs[i].Header("Accept-Encoding") != ""
		for _, g := range c.GzBody {
			touches = touches || g == i
		}
		if touches || i == 0 {
			c19FreshProvider(c)
		}
		ref[i] = c19Send(ct, c, i, c.Via)
	}
	labels := []string{"router_" + c.Router, "via_" + c.Via}
	if c.CORS {
		labels = append(labels, "cors")
	}
	if c.Options {
		labels = append(labels, "options_filter")
	}
	if c.Encoding {
		labels = append(labels, "encoding")
	}
	if len(c.Modes) > 0 {
		labels = append(labels, "routes_writing_entities_or_errors")
	}
	if len(c.GzBody) > 0 {
		labels = append(labels, "gzip_request_bodies")
	}
	labels = append(labels, "provider_"+c.Provider)
	if c.Compact {
		labels = append(labels, "compact_entities")
	}
	if len(c.FailAt) > 0 {
		labels = append(labels, "some_clients_fail")
	}
	compare := func(mode string, i, pos int, got string) {
		if got != ref[i] && len(vs) < 10 {
			r := c.Reqs[i]
			vs = append(vs, viol("", "%s, position %d: %s %s %v is answered {%s}; on a fresh container {%s}", mode, pos, r.Method, r.Path, r.Headers, got, ref[i]))
		}
	}
	if c.Workers == 0 {
		// (2),(3) two sequential orders, the multiset cycled Repeat times
		for oi, order := range [][]int{c.Order1, c.Order2} {
			c19FreshProvider(c)
			kept := &c19Retained{}
			defer func() {
				for _, p := range kept.problems {
					vs = append(vs, viol("", "%s", p))
				}
			}()
			ct, _ := buildC19k(c, kept.check)
			pos := 0
			for rep := 0; rep < max(c.Repeat, 1); rep++ {
				for _, i := range order {
					compare("sequential order #"+strconv.Itoa(oi+1), i, pos, c19Send(ct, c, i, c.Via))
					pos++
				}
			}
		}
		// (5) tracing on
		ct, _ := buildC19(c)
		harness.SetTrace(true)
		for pos, i := range c.Order1 {
			compare("trace logging on", i, pos, c19Send(ct, c, i, c.Via))
		}
		// and once more after tracing was switched off again with TraceLogger(nil)
		harness.SetTraceOff(true)
		for pos, i := range c.Order2 {
			compare("trace logging switched off with TraceLogger(nil)", i, pos, c19Send(ct, c, i, c.Via))
		}
		harness.SetTrace(false)
		if c.Repeat > 1 {
			labels = append(labels, "long_history")
		}
	} else {
		// (4) concurrently from Workers goroutines on one container
		c19FreshProvider(c)
		ct, _ := buildC19(c)
		var mu sync.Mutex
		var wg sync.WaitGroup
		for g := 0; g < c.Workers; g++ {
			wg.Add(1)
			go func(g int) {
				defer wg.Done()
				for k := 0; k < n; k++ {
					i := c.Order1[(k+g*3)%n]
					got := c19Send(ct, c, i, c.Via)
					mu.Lock()
					compare("concurrent from "+strconv.Itoa(c.Workers)+" goroutines", i, k, got)
					mu.Unlock()
				}
			}(g)
		}
		wg.Wait()
		labels = append(labels, "concurrent")
	}
	// non-trivial: two requests reach the same route with different parameter values, or
	// preflights go to at least two URLs
	routeParams := map[string]map[string]bool{}
	preflightURLs := map[string]bool{}
	for i, r := range c.Reqs {
		if r.Method == "OPTIONS" && r.Header("Access-Control-Request-Method") != "" {
			preflightURLs[r.Path] = true
		}
		if k := strings.Index(ref[i], "route="); k >= 0 {
			f := strings.Fields(ref[i][k:])
			if len(f) > 3 {
				if routeParams[f[0]] == nil {
					routeParams[f[0]] = map[string]bool{}
				}
				routeParams[f[0]][f[3]] = true
			}
		}
	}
	nontrivial := len(preflightURLs) >= 2
	for _, ps := range routeParams {
		if len(ps) >= 2 {
			nontrivial = true
		}
	}
	if len(preflightURLs) >= 2 {
		labels = append(labels, "preflights_to_2plus_urls")
	}
	st.Case(c, nontrivial, labels...)
	return vs
}

func TestC19(t *testing.T) {
	rapid.Check(t, func(t *rapid.T) {
		harness.ResetGlobals()
		c := genC19(t, false)
		report(t, "C19", "TestC19", c, checkC19(c, "TestC19"))
	})
}

func TestC19Conc(t *testing.T) {
	rapid.Check(t, func(t *rapid.T) {
		harness.ResetGlobals()
		c := genC19(t, true)
		saveRunning("C19", "TestC19Conc", c)
		report(t, "C19", "TestC19Conc", c, checkC19(c, "TestC19Conc"))
	})
}
