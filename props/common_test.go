package props

import (
	"encoding/json"
	"flag"
	"fmt"
	"os"
	"path/filepath"
	"regexp"
	"runtime"
	"sort"
	"strconv"
	"strings"
	"testing"
	"time"

	"pgregory.net/rapid"

	"verif/internal/harness"
	"verif/internal/stats"
)

// Violation is what a property core returns when the property is broken on a case.
type Violation struct {
	Msg string `json:"msg"`
	// Sig names the known finding whose signature this failure matches ("" if none).
	Sig string `json:"sig,omitempty"`
}

func viol(sig, format string, a ...interface{}) *Violation {
	return &Violation{Msg: fmt.Sprintf(format, a...), Sig: sig}
}

// SavedCase is the on-disk form of a case (found/, replay/).
type SavedCase struct {
	Property  string          `json:"property"`
	Part      string          `json:"part"`
	Violation *Violation      `json:"violation,omitempty"`
	Case      json.RawMessage `json:"case"`
}

// ---------------------------------------------------------------------------------------
// known findings

type knownFinding struct {
	Property string `json:"property"`
	Key      string `json:"key"`
	Status   string `json:"status"` // open | fixed
	Commit   string `json:"commit,omitempty"`
	What     string `json:"what"`
	Witness  string `json:"witness,omitempty"`
}

var known = map[string]knownFinding{}

func loadKnown() {
	p := os.Getenv("VERIF_KNOWN")
	if p == "" {
		p = filepath.Join("..", "known_findings.json")
	}
	b, err := os.ReadFile(p)
	if err != nil {
		return
	}
	var f struct {
		Findings []knownFinding `json:"findings"`
	}
	if json.Unmarshal(b, &f) != nil {
		return
	}
	for _, k := range f.Findings {
		known[k.Key] = k
	}
}

// openFinding reports whether failures with this signature are a recorded, unrepaired defect.
func openFinding(sig string) bool {
	if sig == "" || os.Getenv("VERIF_NO_EXCLUDE") != "" {
		return false
	}
	k, ok := known[sig]
	return ok && k.Status == "open"
}

// ---------------------------------------------------------------------------------------
// registry of property parts: name -> replay function

type part struct {
	property string
	replay   func(raw json.RawMessage) ([]*Violation, error)
}

var parts = map[string]part{}

func registerPart(property, name string, replay func(raw json.RawMessage) ([]*Violation, error)) {
	parts[name] = part{property, replay}
}

// report handles the verdicts of one generated case inside a rapid property: failures that
// match the signature of an open known finding are counted and the search goes on; the first
// other failure is saved and fails the property.
func report(t *rapid.T, property, partName string, c interface{}, vs []*Violation) {
	for _, what := range harness.TakeInconclusive() {
		inconclusive(property, partName, what)
	}
	for _, v := range vs {
		if v == nil {
			continue
		}
		if openFinding(v.Sig) {
			stats.For(property, partName).Exclude(v.Sig)
			continue
		}
		saveFound(property, partName, c, v)
		t.Fatalf("%s: %s", property, v.Msg)
	}
}

func saveFound(property, partName string, c interface{}, v *Violation) {
	dir := os.Getenv("VERIF_FOUND_DIR")
	if dir == "" {
		return
	}
	raw, err := json.Marshal(c)
	if err != nil {
		return
	}
	b, _ := json.MarshalIndent(SavedCase{Property: property, Part: partName, Violation: v, Case: raw}, "", " ")
	os.MkdirAll(dir, 0o755)
	// rapid re-runs the minimal case last, so the file that remains is the shrunk one
	os.WriteFile(filepath.Join(dir, "last.json"), b, 0o644)
}

func replayFile(path string) (sc SavedCase, vs []*Violation, err error) {
	b, err := os.ReadFile(path)
	if err != nil {
		return sc, nil, err
	}
	if err = json.Unmarshal(b, &sc); err != nil {
		return sc, nil, err
	}
	p, ok := parts[sc.Part]
	if !ok {
		return sc, nil, fmt.Errorf("unknown part %q", sc.Part)
	}
	harness.ResetGlobals()
	vs, err = p.replay(sc.Case)
	var out []*Violation
	for _, v := range vs {
		if v != nil {
			out = append(out, v)
		}
	}
	return sc, out, err
}

// TestReplay re-runs saved cases, bypassing rapid:
//
//	VERIF_REPLAY=<file>       one case; fails if it (still) violates
//	VERIF_REPLAY_DIR=<dir>    every *.json below; witnesses of open known findings must fail
//	                          with their recorded signature (KNOWN-FINDING line), everything
//	                          else must pass
func TestReplay(t *testing.T) {
	if f := os.Getenv("VERIF_REPLAY"); f != "" {
		sc, vs, err := replayFile(f)
		if err != nil {
			t.Fatalf("replay %s: %v", f, err)
		}
		for _, v := range vs {
			fmt.Printf("REPLAY-VIOLATION property=%s file=%s sig=%s msg=%s\n", sc.Property, f, v.Sig, oneLine(v.Msg))
			t.Errorf("%s still violated: %s", sc.Property, v.Msg)
		}
		if len(vs) == 0 {
			fmt.Printf("REPLAY-OK property=%s file=%s\n", sc.Property, f)
		}
		return
	}
	dir := os.Getenv("VERIF_REPLAY_DIR")
	if dir == "" {
		t.Skip("no replay requested")
	}
	files, _ := filepath.Glob(filepath.Join(dir, "*.json"))
	sort.Strings(files)
	witness := map[string]knownFinding{}
	for _, k := range known {
		if k.Witness != "" {
			witness[filepath.Base(k.Witness)] = k
		}
	}
	n := 0
	for _, f := range files {
		fmt.Printf("REPLAYING file=%s\n", f)
		sc, vs, err := replayFile(f)
		if err != nil {
			t.Errorf("replay %s: %v", f, err)
			fmt.Printf("REPLAY-ERROR file=%s err=%v\n", f, err)
			continue
		}
		n++
		k, isWitness := witness[filepath.Base(f)]
		asRecorded := false
		for _, v := range vs {
			if isWitness && k.Status == "open" && v.Sig == k.Key {
				asRecorded = true
				continue
			}
			if openFinding(v.Sig) {
				continue // another recorded finding shows on this input too; its own witness reports it
			}
			fmt.Printf("REPLAY-VIOLATION property=%s file=%s sig=%s msg=%s\n", sc.Property, f, v.Sig, oneLine(v.Msg))
			t.Errorf("%s: %s", f, v.Msg)
		}
		if isWitness && k.Status == "open" {
			if asRecorded {
				fmt.Printf("KNOWN-FINDING: property=%s %s [%s; witness %s]\n", k.Property, k.What, k.Key, k.Witness)
			} else {
				fmt.Printf("NOTE: witness %s of open finding %s no longer fails as recorded\n", f, k.Key)
			}
		}
	}
	stats.For(filepath.Base(dir), "replay").Label("replayed_files", int64(n))
}

func oneLine(s string) string {
	s = strings.ReplaceAll(s, "\n", " | ")
	if len(s) > 400 {
		s = s[:400] + "…"
	}
	return s
}

func envInt(name string, def int) int {
	if v := os.Getenv(name); v != "" {
		if n, err := strconv.Atoi(v); err == nil {
			return n
		}
	}
	return def
}

// thorough reports whether the run is the thorough tier (larger generator bounds).
func thorough() bool { return os.Getenv("VERIF_TIER") == "thorough" }

func TestMain(m *testing.M) {
	flag.Parse()
	loadKnown()
	harness.ResetGlobals()
	code := m.Run()
	if out := os.Getenv("VERIF_STATS_OUT"); out != "" {
		if err := stats.WriteAll(out); err != nil {
			fmt.Fprintln(os.Stderr, "stats:", err)
			if code == 0 {
				code = 2
			}
		}
	}
	os.Exit(code)
}

// jsonReplay adapts a typed core to the replay registry.
func jsonReplay[C any](core func(C) []*Violation) func(raw json.RawMessage) ([]*Violation, error) {
	return func(raw json.RawMessage) ([]*Violation, error) {
		var c C
		if err := json.Unmarshal(raw, &c); err != nil {
			return nil, err
		}
		return core(c), nil
	}
}

func jsonMarshal(v interface{}) (string, error) {
	b, err := json.Marshal(v)
	return string(b), err
}

// saveRunning writes the case that is about to run, so that a process stopped by the race
// detector (GORACE=halt_on_error=1) leaves its reproduction behind.
func saveRunning(property, partName string, c interface{}) {
	dir := os.Getenv("VERIF_FOUND_DIR")
	if dir == "" {
		return
	}
	raw, err := json.Marshal(c)
	if err != nil {
		return
	}
	b, _ := json.Marshal(SavedCase{Property: property, Part: partName, Case: raw})
	os.MkdirAll(dir, 0o755)
	os.WriteFile(filepath.Join(dir, "running.json"), b, 0o644)
}

// inconclusive records a watchdog expiry that the goroutine dump cannot turn into a verdict:
// never a violation; the driver reports exit code 2 for the run.
func inconclusive(property, partName, what string) {
	st := stats.For(property, partName)
	st.Label("inconclusive_watchdog", 1)
	st.Note("inconclusive: " + what)
}

var restfulFrame = regexp.MustCompile(`github\.com/emicklei/go-restful/v3\.[^\n]*`)

// guarded runs f under a watchdog of d. When f does not return in time the goroutine dump
// decides: a goroutine parked in a sync lock operation below a go-restful frame means the
// library left a lock held (blocked names that frame); without one the expiry proves nothing
// (expired, to be recorded with inconclusive). The wedged goroutine is abandoned.
func guarded(d time.Duration, f func()) (blocked string, expired bool) {
	done := make(chan struct{})
	go func() {
		defer close(done)
		f()
	}()
	select {
	case <-done:
		return "", false
	case <-time.After(d):
	}
	buf := make([]byte, 4<<20)
	buf = buf[:runtime.Stack(buf, true)]
	for _, g := range strings.Split(string(buf), "\n\n") {
		if !strings.Contains(g, "sync.(*RWMutex).Lock") && !strings.Contains(g, "sync.(*RWMutex).RLock") && !strings.Contains(g, "sync.(*Mutex).Lock") {
			continue
		}
		if fr := restfulFrame.FindString(g); fr != "" {
			return strings.TrimSpace(fr), true
		}
	}
	return "", true
}
