package props

import (
	"strconv"
	"strings"
	"testing"

	"pgregory.net/rapid"

	"verif/internal/gen"
	"verif/internal/harness"
	"verif/internal/model"
	"verif/internal/stats"
)

// C14 – by default a trailing slash on the request path changes nothing (metamorphic).

func init() { registerPart("C14", "TestC14", jsonReplay(checkC14)) }

func genC14(t *rapid.T) RoutingCase {
	c := RoutingCase{Via: harness.ViaDispatch}
	c.Router = rapid.SampledFrom([]string{model.Curly, model.JSR311}).Draw(t, "router")
	cfg := gen.ForRouter(c.Router)
	if c.Router == model.JSR311 {
		cfg.Tail = false // the statement exempts RouterJSR311 tail wildcards
	}
	withOptionsFilter := rapid.IntRange(0, 3).Draw(t, "optionsfilter") == 0
	if withOptionsFilter {
		// with Container.OPTIONSFilter installed the Allow header of an OPTIONS request is a
		// framework decision too; the filter's own matching is only specified on the fragment
		// both engines support (C17), so these tables stay inside it
		cfg = gen.Common()
		c.Extra = map[string]int64{"options_filter": 1}
	}
	if thorough() {
		cfg.MaxServices, cfg.MaxRoutes = 6, 12
	}
	c.Table = gen.Table(t, cfg)
	for _, r := range genRequests(t, c.Table, cfg, 1, 12) {
		r.Path = strings.TrimRight(r.Path, "/")
		if r.Path == "" || !model.CleanPath(r.Path) {
			continue
		}
		c.Reqs = append(c.Reqs, r)
	}
	if rapid.Bool().Draw(t, "viaServe") { // roots may share their fixed prefix: the container registers each mux pattern once
		c.Via = harness.ViaServe
	}
	if withOptionsFilter {
		n := len(c.Reqs)
		for i := 0; i < n; i++ {
			c.Reqs = append(c.Reqs, model.ReqSpec{Method: "OPTIONS", Path: c.Reqs[i].Path})
		}
	}
	return c
}

func checkC14(c RoutingCase) (vs []*Violation) {
	st := stats.For("C14", "TestC14")
	rec := harness.NewRecorder()
	ct, p := buildWith(c.Table, &harness.Options{Router: c.Router, OptionsFilter: c.Extra["options_filter"] == 1}, rec, c.Via != harness.ViaServe)
	if p != nil {
		return []*Violation{viol("", "building the table panicked: %v", p)}
	}
	nontrivial := false
	labels := []string{"router_" + c.Router, "via_" + c.Via}
	for i, req := range c.Reqs {
		if strings.HasSuffix(req.Path, "/") || !model.CleanPath(req.Path) || req.Path == "/" {
			continue
		}
		slash := req
		slash.Path = req.Path + "/"
		a := harness.Do(ct, rec, req, c.Via, strconv.Itoa(i)+"a")
		b := harness.Do(ct, rec, slash, c.Via, strconv.Itoa(i)+"b")
		if c.Via == harness.ViaServe && ((a.Status/100 == 3 && len(a.Ran) == 0) || (b.Status/100 == 3 && len(b.Ran) == 0)) {
			// a redirect produced by net/http's ServeMux is not a framework decision - unless the
			// path is the fixed part of a WebService's own root path, for which the container
			// registers both the path and the path plus slash (as long as no WebService mapped on
			// "/" was added before it)
			own := false
			for _, s := range c.Table.Services {
				if p := gen.MuxPattern(s.Root); p == "/" || p == "" {
					break // from here on everything is served through the pattern "/": nothing more is registered
				}
				if gen.MuxPattern(s.Root) == req.Path && s.RootForm != 1 {
					own = true // (a root written with a trailing slash, "/a/", only claims the subtree)
				}
			}
			if own {
				vs = append(vs, viol("", "%s router, via ServeHTTP: %s %q is the fixed part of a WebService root, yet it is answered %d and %q is answered %d (a redirect by net/http's mux: the pattern is not registered)", c.Router, req.Method, req.Path, a.Status, slash.Path, b.Status))
			}
			labels = append(labels, "skipped_mux_redirect")
			continue
		}
		labels = append(labels, "outcome_"+outcomeClass(a))
		if len(a.Ran) > 0 || a.Status == 405 || (c.Extra["options_filter"] == 1 && req.Method == "OPTIONS" && len(a.Allow) > 0) {
			nontrivial = true
		}
		if c.Extra["options_filter"] == 1 && req.Method == "OPTIONS" {
			labels = append(labels, "options_filter_answer")
		}
		if a.Key() != b.Key() {
			vs = append(vs, viol("", "%s router, via %s: %s %q -> {%s} but %q -> {%s}", c.Router, c.Via, req.Method, req.Path, a.Key(), slash.Path, b.Key()))
		}
	}
	st.Case(c, nontrivial, labels...)
	return vs
}

func TestC14(t *testing.T) {
	rapid.Check(t, func(t *rapid.T) {
		harness.ResetGlobals()
		c := genC14(t)
		report(t, "C14", "TestC14", c, checkC14(c))
	})
}
