package props

import (
	"strconv"
	"strings"
	"testing"

	restful "github.com/emicklei/go-restful/v3"
	"pgregory.net/rapid"

	"verif/internal/gen"
	"verif/internal/harness"
	"verif/internal/model"
	"verif/internal/stats"
)

// C02 – every request gets exactly one outcome; 404/405/415/406 are exact (reference model).

func init() { registerPart("C02", "TestC02", jsonReplay(checkC02)) }

func genRoutingCase(t *rapid.T, adversarial bool) RoutingCase {
	c := RoutingCase{Via: harness.ViaDispatch}
	c.Router = rapid.SampledFrom([]string{model.Curly, model.Curly, model.JSR311}).Draw(t, "router")
	cfg := gen.ForRouter(c.Router)
	cfg.Adversarial = adversarial
	if thorough() {
		cfg.MaxServices, cfg.MaxRoutes, cfg.MaxSegs = 8, 16, 5
	}
	c.Table = gen.Table(t, cfg)
	c.Reqs = genRequests(t, c.Table, cfg, 1, 12)
	if rapid.IntRange(0, 4).Draw(t, "routerswapped") == 0 {
		// the container had the other router installed first
		c.Extra = map[string]int64{"router_swapped": 1}
	}
	if rapid.IntRange(0, 2).Draw(t, "traceoffnil") == 0 {
		if c.Extra == nil {
			c.Extra = map[string]int64{}
		}
		c.Extra["trace_off_nil"] = 1 // tracing is switched off with TraceLogger(nil)
	}
	if rapid.IntRange(0, 2).Draw(t, "entityhandlers") == 0 {
		if c.Extra == nil {
			c.Extra = map[string]int64{}
		}
		c.Extra["entity_handlers"] = 1
	}
	if rapid.IntRange(0, 5).Draw(t, "defaultrequestct") == 0 {
		// DefaultRequestContentType is what ReadEntity falls back to; route selection is no
		// business of it
		if c.Extra == nil {
			c.Extra = map[string]int64{}
		}
		c.Extra["default_request_ct"] = int64(1 + rapid.IntRange(0, len(gen.MediaPool)-1).Draw(t, "defaultrequestctwhich"))
	}
	if rapid.IntRange(0, 2).Draw(t, "viaserve") == 0 {
		// through ServeHTTP: net/http's mux sits in front (pattern registration, path cleaning)
		c.Via = harness.ViaServe
	}
	return c
}

// muxAnswered reports that net/http's ServeMux answered by itself (redirect to the cleaned
// path, bad request): not a framework decision.
func muxAnswered(via string, o harness.Outcome) bool {
	return via == harness.ViaServe && len(o.Ran) == 0 && (o.Status/100 == 3 || o.Status == 400)
}

func buildRouting(c RoutingCase, rec *harness.Recorder, nContainerFilters int) (*restful.Container, interface{}) {
	opt := &harness.Options{Router: c.Router, ContainerFilters: nContainerFilters, SwapRouterFirst: c.Extra["router_swapped"] == 1}
	if c.Extra["entity_handlers"] == 1 {
		// the route functions answer with WriteEntity: whatever Accept header the router let
		// through also reaches the entity writer's parser
		opt.Handler = harness.EntityHandler
	}
	if v := c.Extra["default_request_ct"]; v > 0 {
		restful.DefaultRequestContentType(gen.MediaPool[int(v-1)%len(gen.MediaPool)])
	}
	return buildWith(c.Table, opt, rec, c.Via != harness.ViaServe)
}

func viaOf(c RoutingCase) string {
	if c.Via == harness.ViaServe {
		return harness.ViaServe
	}
	return harness.ViaDispatch
}

func validErrorStatus(s int) bool { return s == 404 || s == 405 || s == 415 || s == 406 }

func checkC02(c RoutingCase) (vs []*Violation) {
	st := stats.For("C02", "TestC02")
	rec := harness.NewRecorder()
	ct, p := buildRouting(c, rec, 0)
	if p != nil {
		return []*Violation{viol("", "building the table panicked: %v", p)}
	}
	via := viaOf(c)
	nontrivial := false
	labels := []string{"router_" + c.Router, "via_" + via}
	for i, req := range c.Reqs {
		// from the second request on tracing is still on from the previous iteration, and
		// TraceLogger(nil) is what switches it off (a configuration history)
		harness.SetTraceOff(c.Extra["trace_off_nil"] == 1 && i > 0)
		o := harness.Do(ct, rec, req, via, strconv.Itoa(i))
		harness.SetTrace(true)
		ot := harness.Do(ct, rec, req, via, strconv.Itoa(i)+"t")
		if c.Extra["trace_off_nil"] != 1 || i == len(c.Reqs)-1 {
			harness.SetTrace(false)
		}
		if muxAnswered(via, o) {
			labels = append(labels, "answered_by_net_http_mux")
			continue
		}
		v := model.Decide(c.Table, req, c.Router)
		where := c.Router + " " + req.Method + " " + strconv.Quote(req.Path)
		// totality
		if o.Panic != "" {
			vs = append(vs, viol("", "%s: Dispatch panicked: %s", where, o.Panic))
			labels = append(labels, "outcome_panic")
			continue
		}
		if len(o.Ran) > 1 {
			vs = append(vs, viol("", "%s: %d route functions ran: %v", where, len(o.Ran), o.Ran))
		}
		if len(o.Ran) == 0 && !validErrorStatus(o.Status) {
			vs = append(vs, viol("", "%s: nothing ran but status is %d", where, o.Status))
		}
		if len(o.Ran) == 0 && o.Status == 405 {
			if _, ok := o.Header["Allow"]; !ok {
				vs = append(vs, viol("", "%s: 405 without Allow header", where))
			}
		}
		if o.Key() != ot.Key() {
			vs = append(vs, viol("", "%s: outcome depends on trace logging: off{%s} on{%s}", where, o.Key(), ot.Key()))
		}
		// exactness
		if v.Unspecified {
			labels = append(labels, "model_unspecified")
			continue
		}
		if !v.Admits(observed(o)) {
			b, _ := jsonMarshal(v.Set)
			sig := ""
			if c.Router == model.JSR311 && strings.Contains(req.Path, "\n") && len(o.Ran) == 0 && o.Status == 404 {
				sig = "D16"
			}
			vs = append(vs, viol(sig, "%s headers=%v body=%d bytes: observed {%s} is not an admissible outcome; the reference model admits %s", where, req.Headers, len(req.Body), o.Key(), b))
		}
		if v.Decisive() {
			labels = append(labels, "decisive", "stage_"+v.Set[0].Stage)
			switch v.Set[0].Stage {
			case "404-noroute", "404-cond", "405", "415-body", "415-bodiless", "406":
				nontrivial = true
			case "ran":
				if v.PathCandidates >= 2 {
					nontrivial = true
				}
			}
		} else {
			labels = append(labels, "set_valued")
		}
	}
	st.Case(c, nontrivial, labels...)
	return vs
}

func TestC02(t *testing.T) {
	rapid.Check(t, func(t *rapid.T) {
		harness.ResetGlobals()
		c := genRoutingCase(t, true)
		report(t, "C02", "TestC02", c, checkC02(c))
	})
}
