package props

import (
	"fmt"
	"net/http"
	"net/http/httptest"
	"sort"
	"strconv"
	"strings"
	"testing"
	"time"

	restful "github.com/emicklei/go-restful/v3"
	"pgregory.net/rapid"

	"verif/internal/harness"
	"verif/internal/model"
	"verif/internal/stats"
)

// C11 – registration state equals what a fresh container with the same content has.

func init() { registerPart("C11", "TestC11", jsonReplay(checkC11)) }

// root pools: sharing prefixes, differing by a trailing slash or by a variable, with "/"
var c11Roots = []string{"/", "/a", "/a/", "/a/b", "/a/{x}", "/a/{x}/c", "/a/{x}/d", "/b", "/b/{z}", "/{y}", "/c/d", "/c", "{w}/items"}

// roots whose ServeMux patterns are pairwise distinct and not nested in each other's "/"-variants
var c11SafeRoots = []string{"/", "/a", "/b/{z}", "/c/d", "/d", "/e/{v}/f"}

// "/a/x" below root "/a" is the route /a/a/x, whose path relative to the root reads like the
// full path of the route "/x": RemoveRoute takes full paths
var c11RoutePaths = []string{"", "/x", "/{id}", "/x/{id}", "/y", "/a/x", "/x", "/a/x"}

type c11Route struct {
	ID     string `json:"id"`
	Method string `json:"method"`
	Path   string `json:"path"`
}

// C11Op is one operation of the history.
type C11Op struct {
	Op      string     `json:"op"` // add, remove, route, rmroute, handle, add_other, remove_other (a second container that shares WebService values)
	Svc     int        `json:"svc,omitempty"`
	Root    string     `json:"root,omitempty"`
	Routes  []c11Route `json:"routes,omitempty"` // add: initial routes; route: the new one (1)
	RouteID string     `json:"route_id,omitempty"`
	Pattern string     `json:"pattern,omitempty"`
	// Quiet: the container is asked nothing between this operation and the next one (whatever
	// it keeps about its content has to follow the operations themselves, not the requests)
	Quiet bool `json:"quiet,omitempty"`
}

// C11Case is a history.
type C11Case struct {
	Router string  `json:"router"`
	Ops    []C11Op `json:"ops"`
	// OptionsFilter installs Container.OPTIONSFilter on both containers; OPTIONS probes then show
	// what the framework computes from the registered routes at that moment.
	OptionsFilter bool `json:"options_filter,omitempty"`
}

func genC11(t *rapid.T) C11Case {
	c := C11Case{Router: rapid.SampledFrom([]string{model.Curly, model.JSR311}).Draw(t, "router")}
	c.OptionsFilter = rapid.Bool().Draw(t, "optionsfilter")
	pool := c11SafeRoots
	if rapid.IntRange(0, 3).Draw(t, "conflictpool") == 0 {
		pool = c11Roots
	}
	registered := map[int]bool{}    // svc index -> registered
	created := map[int][]c11Route{} // svc index -> current routes (service exists once created)
	rootOf := map[int]string{}
	inOther := map[int]bool{}
	handles := 0
	nextRoute := 0
	newRoute := func() c11Route {
		r := c11Route{ID: "r" + strconv.Itoa(nextRoute), Method: rapid.SampledFrom([]string{"GET", "GET", "POST"}).Draw(t, "method"), Path: rapid.SampledFrom(c11RoutePaths).Draw(t, "routepath")}
		nextRoute++
		return r
	}
	// a route whose path reads like the full path of a sibling: "/a/x" below root "/a" next to "/x"
	likeSibling := func(s int, r c11Route) c11Route {
		root := pool[s]
		if root == "/" || strings.Contains(root, "{") || len(created[s]) == 0 || rapid.IntRange(0, 3).Draw(t, "likesibling") != 0 {
			return r
		}
		sib := created[s][rapid.IntRange(0, len(created[s])-1).Draw(t, "whichsibling")]
		r.Method, r.Path = sib.Method, strings.TrimRight(root, "/")+sib.Path
		return r
	}
	n := rapid.IntRange(5, 40).Draw(t, "nops")
	for i := 0; i < n; i++ {
		var regd, unreg []int
		for s := range pool {
			if registered[s] {
				regd = append(regd, s)
			} else {
				unreg = append(unreg, s)
			}
		}
		sort.Ints(regd)
		sort.Ints(unreg)
		var idle []int // created earlier, not registered at the moment
		for s := range created {
			if !registered[s] {
				idle = append(idle, s)
			}
		}
		sort.Ints(idle)
		kind := rapid.IntRange(0, 13).Draw(t, "opkind")
		nBefore := len(c.Ops)
		switch {
		case kind == 10 && len(idle) > 0:
			// Remove of a WebService that is not registered (e.g. removed twice): nothing changes
			s := idle[rapid.IntRange(0, len(idle)-1).Draw(t, "rmidle")]
			c.Ops = append(c.Ops, C11Op{Op: "remove", Svc: s})
		case kind == 11 && len(idle) > 0:
			// a route added while the service is not registered is there when it is added again
			s := idle[rapid.IntRange(0, len(idle)-1).Draw(t, "routeidle")]
			r := likeSibling(s, newRoute())
			created[s] = append(created[s], r)
			c.Ops = append(c.Ops, C11Op{Op: "route", Svc: s, Routes: []c11Route{r}})
		case kind >= 12:
			// the same WebService value is also mounted on (or taken off) a second container, which
			// is nobody's business but that container's
			var cands []int
			for s := range created {
				if inOther[s] == (kind == 13) {
					cands = append(cands, s)
				}
			}
			sort.Ints(cands)
			if len(cands) == 0 {
				continue
			}
			s := cands[rapid.IntRange(0, len(cands)-1).Draw(t, "othersvc")]
			inOther[s] = kind == 12
			c.Ops = append(c.Ops, C11Op{Op: map[bool]string{true: "add_other", false: "remove_other"}[kind == 12], Svc: s})
		case kind >= 10:
			continue
		case (kind < 3 || len(regd) == 0) && len(unreg) > 0:
			s := unreg[rapid.IntRange(0, len(unreg)-1).Draw(t, "addsvc")]
			op := C11Op{Op: "add", Svc: s, Root: pool[s]}
			if _, ok := created[s]; !ok {
				nr := rapid.IntRange(0, 2).Draw(t, "ninitial")
				for k := 0; k < nr; k++ {
					op.Routes = append(op.Routes, newRoute())
				}
				created[s] = op.Routes
				rootOf[s] = pool[s]
			}
			registered[s] = true
			c.Ops = append(c.Ops, op)
		case kind < 5 && len(regd) > 0:
			s := regd[rapid.IntRange(0, len(regd)-1).Draw(t, "rmsvc")]
			registered[s] = false
			c.Ops = append(c.Ops, C11Op{Op: "remove", Svc: s})
		case kind < 7 && len(regd) > 0:
			s := regd[rapid.IntRange(0, len(regd)-1).Draw(t, "routesvc")]
			r := likeSibling(s, newRoute())
			created[s] = append(created[s], r)
			c.Ops = append(c.Ops, C11Op{Op: "route", Svc: s, Routes: []c11Route{r}})
		case kind < 9 && len(regd) > 0:
			s := regd[rapid.IntRange(0, len(regd)-1).Draw(t, "rmroutesvc")]
			if len(created[s]) == 0 {
				continue
			}
			k := rapid.IntRange(0, len(created[s])-1).Draw(t, "rmroute")
			id := created[s][k].ID
			created[s] = append(append([]c11Route{}, created[s][:k]...), created[s][k+1:]...)
			c.Ops = append(c.Ops, C11Op{Op: "rmroute", Svc: s, RouteID: id})
		default:
			if handles > 0 && rapid.IntRange(0, 2).Draw(t, "handleagain") == 0 {
				c.Ops = append(c.Ops, C11Op{Op: "handle", Pattern: []string{"/_h/one", "/_h/two/", "/_h/t/x"}[rapid.IntRange(0, handles-1).Draw(t, "takenpattern")]})
			} else if handles < 3 {
				c.Ops = append(c.Ops, C11Op{Op: "handle", Pattern: []string{"/_h/one", "/_h/two/", "/_h/t/x"}[handles]})
				handles++
			}
		}
		if len(c.Ops) > nBefore && rapid.IntRange(0, 2).Draw(t, "quiet") == 0 {
			c.Ops[len(c.Ops)-1].Quiet = true
		}
	}
	return c
}

type c11Svc struct {
	root   string
	routes []c11Route
	ws     *restful.WebService
}

func c11FullPath(root, sub string) string {
	return strings.TrimRight(root, "/") + "/" + strings.TrimLeft(sub, "/")
}

func c11Handler(id string) restful.RouteFunction {
	return func(req *restful.Request, resp *restful.Response) {
		ps := make([]string, 0)
		for k, v := range req.PathParameters() {
			ps = append(ps, k+"="+v)
		}
		sort.Strings(ps)
		resp.Header().Set("X-Route", id)
		resp.WriteHeader(200)
		resp.Write([]byte(id + " " + strings.Join(ps, ",")))
	}
}

func c11NewWS(root string, routes []c11Route) *restful.WebService {
	ws := new(restful.WebService)
	ws.Path(root)
	ws.SetDynamicRoutes(true)
	for _, r := range routes {
		ws.Route(ws.Method(r.Method).Path(r.Path).To(c11Handler(r.ID)))
	}
	return ws
}

func c11Plain(pattern string) http.Handler {
	return http.HandlerFunc(func(w http.ResponseWriter, r *http.Request) {
		w.Header().Set("X-Handle", pattern)
		w.WriteHeader(200)
		w.Write([]byte("plain " + pattern))
	})
}

func c11Probe(ct *restful.Container, method, path, via string) string {
	hr := harness.NewHTTPRequest(model.ReqSpec{Method: method, Path: path}, "p")
	w := httptest.NewRecorder()
	pan := ""
	func() {
		defer func() {
			if p := recover(); p != nil {
				pan = fmt.Sprint(p)
			}
		}()
		if via == harness.ViaServe {
			ct.ServeHTTP(w, hr)
		} else {
			ct.Dispatch(w, hr)
		}
	}()
	return fmt.Sprintf("status=%d route=%q handle=%q allow=%q body=%q panic=%q", w.Code, w.Header().Get("X-Route"), w.Header().Get("X-Handle"), w.Header().Get("Allow"), truncate(w.Body.Bytes(), 60), pan)
}

func isMuxConflict(p interface{}) bool {
	s := fmt.Sprint(p)
	return strings.Contains(s, "conflicts with pattern") || strings.Contains(s, "multiple registrations")
}

// checkC11 runs the history under a watchdog: an operation or probe that never returns because
// the library left one of its locks held is a violation (nothing "answers" any more); an expiry
// the goroutine dump cannot explain is inconclusive.
func checkC11(c C11Case) (vs []*Violation) {
	blocked, expired := guarded(20*time.Second, func() { vs = checkC11History(c) })
	if blocked != "" {
		return []*Violation{viol("", "the history does not complete: a goroutine is parked on a lock in %s (a lock was left held by an earlier operation)", blocked)}
	}
	if expired {
		inconclusive("C11", "TestC11", "the history did not complete within 20s and no goroutine is parked on a go-restful lock")
		return nil
	}
	return vs
}

func checkC11History(c C11Case) (vs []*Violation) {
	st := stats.For("C11", "TestC11")
	ct := restful.NewContainer()
	if c.Router == model.JSR311 {
		ct.Router(restful.RouterJSR311{})
	}
	if c.OptionsFilter {
		ct.Filter(ct.OPTIONSFilter)
	}
	probeMethods := []string{"GET", "POST"}
	if c.OptionsFilter {
		probeMethods = append(probeMethods, "OPTIONS")
	}
	svcs := map[int]*c11Svc{}
	var order []string // registration order: "s<idx>" / "h<pattern>"
	labels := []string{"router_" + c.Router}
	nontrivial := false
	sawRemove := false
	handleBeforeRemove := map[string]bool{} // Handle patterns registered before some later Remove
	var everPaths []string
	addPaths := func(root string, routes []c11Route) {
		for _, r := range routes {
			full := c11FullPath(root, r.Path)
			p := strings.NewReplacer("{x}", "vx", "{z}", "vz", "{y}", "vy", "{v}", "vv", "{w}", "vw", "{id}", "42").Replace(full)
			if !strings.HasPrefix(p, "/") {
				p = "/" + p // a root path written without its leading slash ("{w}/items")
			}
			everPaths = append(everPaths, p, strings.TrimRight(p, "/")+"/extra")
			if p != "/" {
				everPaths = append(everPaths, strings.TrimRight(p, "/"), strings.TrimRight(p, "/")+"/")
			}
		}
		p := strings.NewReplacer("{x}", "vx", "{z}", "vz", "{y}", "vy", "{v}", "vv", "{w}", "vw").Replace(root)
		if !strings.HasPrefix(p, "/") {
			p = "/" + p
		}
		everPaths = append(everPaths, p)
	}
	remove := func(key string) {
		for i, o := range order {
			if o == key {
				order = append(order[:i:i], order[i+1:]...)
				return
			}
		}
	}

	quietSteps := 0
	var other *restful.Container
	otherHas := map[int]bool{}
	for step, op := range c.Ops {
		where := fmt.Sprintf("after step %d (%s svc=%d root=%q pattern=%q)", step, op.Op, op.Svc, op.Root, op.Pattern)
		switch op.Op {
		case "add":
			s, ok := svcs[op.Svc]
			if !ok {
				s = &c11Svc{root: op.Root, routes: append([]c11Route{}, op.Routes...)}
				s.ws = c11NewWS(s.root, s.routes)
				svcs[op.Svc] = s
			}
			registeredAlready := false
			for _, o := range order {
				if o == "s"+strconv.Itoa(op.Svc) {
					registeredAlready = true
				}
				if strings.HasPrefix(o, "s") {
					i, _ := strconv.Atoi(o[1:])
					if svcs[i].root == s.root {
						registeredAlready = true // a duplicate root path exits the process
					}
				}
			}
			if registeredAlready {
				continue
			}
			var pan interface{}
			func() {
				defer func() { pan = recover() }()
				ct.Add(s.ws)
			}()
			if pan != nil {
				sig := ""
				if isMuxConflict(pan) {
					sig = "D7"
				}
				vs = append(vs, viol(sig, "%s: Add of root %q next to %v panicked: %v", where, s.root, order, pan))
				st.Case(c, nontrivial, append(labels, "ended_by_add_panic")...)
				return vs // the ServeMux may be half registered; the history ends here
			}
			if sawRemove {
				nontrivial = true
				labels = append(labels, "add_after_remove")
			}
			order = append(order, "s"+strconv.Itoa(op.Svc))
			addPaths(s.root, s.routes)
		case "remove":
			s, ok := svcs[op.Svc]
			if !ok {
				continue
			}
			var rpan interface{}
			func() {
				defer func() { rpan = recover() }()
				wasRegistered := false
				for _, o := range order {
					wasRegistered = wasRegistered || o == "s"+strconv.Itoa(op.Svc)
				}
				// (what Remove returns for a WebService that is not registered is nobody's statement)
				if err := ct.Remove(s.ws); err != nil && wasRegistered {
					vs = append(vs, viol("", "%s: Remove returned %v", where, err))
				}
			}()
			if rpan != nil {
				vs = append(vs, viol("", "%s: Remove of root %q from %v panicked: %v", where, s.root, order, rpan))
				st.Case(c, nontrivial, append(labels, "ended_by_remove_panic")...)
				return vs
			}
			remove("s" + strconv.Itoa(op.Svc))
			sawRemove = true
			for _, o := range order {
				if strings.HasPrefix(o, "h") {
					handleBeforeRemove[o[1:]] = true
				}
			}
		case "add_other", "remove_other":
			s, ok := svcs[op.Svc]
			if !ok {
				continue
			}
			if other == nil {
				other = restful.NewContainer()
				if c.Router == model.JSR311 {
					other.Router(restful.RouterJSR311{})
				}
			}
			var opan interface{}
			func() {
				defer func() { opan = recover() }()
				if op.Op == "add_other" {
					if !otherHas[op.Svc] {
						other.Add(s.ws)
						otherHas[op.Svc] = true
					}
				} else if otherHas[op.Svc] {
					other.Remove(s.ws)
					otherHas[op.Svc] = false
				}
			}()
			if opan != nil {
				vs = append(vs, viol("", "%s: the operation on a second container panicked: %v", where, opan))
				st.Case(c, nontrivial, append(labels, "ended_by_add_panic")...)
				return vs
			}
			labels = append(labels, "service_shared_with_a_second_container")
		case "route":
			s, ok := svcs[op.Svc]
			if !ok || len(op.Routes) != 1 {
				continue
			}
			r := op.Routes[0]
			s.ws.Route(s.ws.Method(r.Method).Path(r.Path).To(c11Handler(r.ID)))
			s.routes = append(s.routes, r)
			addPaths(s.root, []c11Route{r})
		case "rmroute":
			s, ok := svcs[op.Svc]
			if !ok {
				continue
			}
			for i, r := range s.routes {
				if r.ID == op.RouteID {
					if err := s.ws.RemoveRoute(c11FullPath(s.root, r.Path), r.Method); err != nil {
						vs = append(vs, viol("", "%s: RemoveRoute returned %v", where, err))
					}
					// RemoveRoute removes every route with that path and method
					var keep []c11Route
					for _, r2 := range s.routes {
						if !(r2.Method == r.Method && c11FullPath(s.root, r2.Path) == c11FullPath(s.root, r.Path)) {
							keep = append(keep, r2)
						}
					}
					_ = i
					s.routes = keep
					break
				}
			}
		case "handle":
			dup := false
			for _, o := range order {
				if o == "h"+op.Pattern {
					dup = true
				}
			}
			if dup {
				// a pattern that is taken: the documented panic, which the caller recovers from;
				// a registration that failed is no part of the container's content
				func() {
					defer func() { recover() }()
					ct.Handle(op.Pattern, c11Plain(op.Pattern))
				}()
				labels = append(labels, "handle_of_a_taken_pattern_refused")
				break
			}
			var pan interface{}
			func() {
				defer func() { pan = recover() }()
				ct.Handle(op.Pattern, c11Plain(op.Pattern))
			}()
			if pan != nil {
				vs = append(vs, viol("", "%s: Handle(%q) panicked: %v", where, op.Pattern, pan))
				return vs
			}
			order = append(order, "h"+op.Pattern)
			everPaths = append(everPaths, op.Pattern, op.Pattern+"sub", strings.TrimRight(op.Pattern, "/"))
		}

		if op.Quiet && step < len(c.Ops)-1 {
			quietSteps++
			continue
		}
		// fresh container with the same content in the same order
		fresh := restful.NewContainer()
		if c.Router == model.JSR311 {
			fresh.Router(restful.RouterJSR311{})
		}
		if c.OptionsFilter {
			fresh.Filter(fresh.OPTIONSFilter)
		}
		var fpan interface{}
		func() {
			defer func() { fpan = recover() }()
			for _, o := range order {
				if strings.HasPrefix(o, "h") {
					fresh.Handle(o[1:], c11Plain(o[1:]))
				} else {
					i, _ := strconv.Atoi(o[1:])
					fresh.Add(c11NewWS(svcs[i].root, svcs[i].routes))
				}
			}
		}()
		if fpan != nil {
			sig := ""
			if isMuxConflict(fpan) {
				sig = "D7"
			}
			vs = append(vs, viol(sig, "%s: building a fresh container with content %v panicked: %v", where, order, fpan))
			st.Case(c, nontrivial, append(labels, "ended_by_add_panic")...)
			return vs
		}
		probes := model.SortedSet(append(append([]string{}, everPaths...), "/", "/zzz/unrelated"))
		remaining := 0
		for _, o := range order {
			if strings.HasPrefix(o, "s") {
				remaining++
			}
		}
		if sawRemove && remaining > 0 {
			nontrivial = true
		}
		for _, via := range []string{harness.ViaServe, harness.ViaDispatch} {
			for _, p := range probes {
				for _, m := range probeMethods {
					a := c11Probe(ct, m, p, via)
					b := c11Probe(fresh, m, p, via)
					if a != b {
						sig := ""
						for pat := range handleBeforeRemove {
							if via == harness.ViaServe && (p == pat || strings.HasPrefix(p, strings.TrimRight(pat, "/")) && strings.Contains(b, "handle=\""+pat+"\"")) {
								sig = "D8"
							}
						}
						vs = append(vs, viol(sig, "%s, content %v: %s %s via %s: history-built {%s} fresh {%s}", where, order, m, p, via, a, b))
					}
				}
			}
		}
		if len(vs) > 0 {
			break
		}
	}
	st.Label("steps", int64(len(c.Ops)))
	st.Label("steps_without_a_request_before_the_next_operation", int64(quietSteps))
	if sawRemove {
		labels = append(labels, "history_with_remove")
	}
	st.Case(c, nontrivial, labels...)
	return vs
}

func TestC11(t *testing.T) {
	rapid.Check(t, func(t *rapid.T) {
		harness.ResetGlobals()
		c := genC11(t)
		report(t, "C11", "TestC11", c, checkC11(c))
	})
}
