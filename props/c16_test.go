package props

import (
	"bytes"
	"compress/gzip"
	"compress/zlib"
	"encoding/json"
	"encoding/xml"
	"fmt"
	"math"
	"reflect"
	"strconv"
	"strings"
	"sync/atomic"
	"testing"
	"unicode/utf8"

	restful "github.com/emicklei/go-restful/v3"
	"pgregory.net/rapid"

	"verif/internal/harness"
	"verif/internal/model"
	"verif/internal/stats"
)

// C16 – entities survive write then read, also compressed, whatever came before.

func init() { registerPart("C16", "TestC16", jsonReplay(checkC16)) }

type innerJ struct {
	S string  `json:"s"`
	F float64 `json:"f"`
}

type entityJ struct {
	I64  int64             `json:"i64"`
	U64  uint64            `json:"u64"`
	F    float64           `json:"f"`
	B    bool              `json:"b"`
	S    string            `json:"s"`
	In   innerJ            `json:"in"`
	SS   []string          `json:"ss"`
	II   []int64           `json:"ii"`
	PS   *string           `json:"ps"`
	PI   *int64            `json:"pi"`
	Any  interface{}       `json:"any"`
	Map  map[string]string `json:"map"`
	AnyS string            `json:"-"` // decimal text of Any (how the case is stored)
}

type innerX struct {
	S string  `xml:"s"`
	F float64 `xml:"f"`
}

type entityX struct {
	XMLName xml.Name `xml:"E"`
	I64     int64    `xml:"i64"`
	U64     uint64   `xml:"u64"`
	F       float64  `xml:"f"`
	B       bool     `xml:"b"`
	S       string   `xml:"s"`
	Attr    string   `xml:"attr,attr"`
	In      innerX   `xml:"in"`
	SS      []string `xml:"ss"`
	II      []int64  `xml:"ii"`
	PS      *string  `xml:"ps"`
	PI      *int64   `xml:"pi"`
}

// EntityVal is the serialisable description of a generated value (both codecs).
type EntityVal struct {
	I64  int64             `json:"i64"`
	U64  uint64            `json:"u64"`
	F    string            `json:"f"` // float bits as hex, exact
	B    bool              `json:"b"`
	S    string            `json:"s"`
	InS  string            `json:"in_s"`
	InF  string            `json:"in_f"`
	SS   []string          `json:"ss"`
	II   []int64           `json:"ii"`
	PS   *string           `json:"ps"`
	PI   *int64            `json:"pi"`
	Any  string            `json:"any"` // decimal integer, "" = nil
	Map  map[string]string `json:"map"`
	Attr string            `json:"attr"`
}

// C16Req is one request of the history.
type C16Req struct {
	Codec    string    `json:"codec"` // json | xml
	Val      EntityVal `json:"val"`
	Pretty   bool      `json:"pretty"`
	CTForm   int       `json:"ct_form"`  // 0 T, 1 "T; charset=utf-8", 2 "T ;charset=UTF-8", 3 absent + default, 4 T; charset="utf-8" (quoted)
	Encoding string    `json:"encoding"` // "", gzip, deflate
	Members  int       `json:"members"`  // gzip members (RFC 1952 allows several)
	Damage   string    `json:"damage"`   // "", trunc_header, trunc_stream, trunc_trailer, bitflip, garbage, syntax
	DamagePM int       `json:"damage_pm"`
	// Lvl: compression level + 3 the client used (0: the default level); every level is a
	// valid stream, the zlib header differs (78 01 / 78 5e / 78 9c / 78 da)
	Lvl int `json:"lvl,omitempty"`
	// EncSpelling: how the coding is spelled in Content-Encoding. 0 as the library documents it
	// (gzip, deflate); 1 GZIP/DEFLATE, 2 Gzip/Deflate, 3 a leading blank, 4 x-gzip (gzip only).
	// Whether such a spelling is recognised is the library's choice: the body then reads back
	// equal, or reading fails (the compressed bytes are no document) - and a broken body fails
	// under either reading.
	EncSpelling int `json:"enc_spelling,omitempty"`
	// Pad: insignificant white space that follows the document in the body (both codecs stop
	// reading at the end of the entity; what follows is part of the body all the same)
	Pad int `json:"pad,omitempty"`
}

func spellEncoding(enc string, how int) string {
	if enc == "" {
		return enc
	}
	switch how {
	case 1:
		return strings.ToUpper(enc)
	case 2:
		return strings.ToUpper(enc[:1]) + enc[1:]
	case 3:
		return " " + enc
	case 4:
		if enc == "gzip" {
			return "x-gzip"
		}
	}
	return enc
}

// C16Case is a history under one provider.
type C16Case struct {
	Provider string   `json:"provider"`
	Reqs     []C16Req `json:"reqs"`
	// LateReader: two media types get their (JSON) reader registered after the service is up;
	// one of them was asked for once before. Afterwards both read the same body alike.
	LateReader bool `json:"late_reader,omitempty"`
}

var c16LateCounter int64

func fbits(f float64) string { return strconv.FormatUint(math.Float64bits(f), 16) }
func ffrom(s string) float64 {
	u, _ := strconv.ParseUint(s, 16, 64)
	return math.Float64frombits(u)
}

func xmlLegal(s string) string {
	var sb strings.Builder
	for _, r := range s {
		ok := r == 0x9 || r == 0xA || r == 0xD || (r >= 0x20 && r <= 0xD7FF) || (r >= 0xE000 && r <= 0xFFFD) || (r >= 0x10000 && r <= 0x10FFFF)
		if ok && r != utf8.RuneError {
			sb.WriteRune(r)
		}
	}
	return sb.String()
}

func genString(t *rapid.T, label string) string {
	switch rapid.IntRange(0, 5).Draw(t, label+"kind") {
	case 0:
		return ""
	case 1:
		return rapid.SampledFrom([]string{"héllo", "<a&b>\"'", "\U0001F600 emoji", "line1\nline2\ttab", " lead and trail ", " sep", "]]>", "日本語", "a\rb", "null"}).Draw(t, label+"pool")
	}
	s := rapid.StringN(0, 24, 96).Draw(t, label)
	if !utf8.ValidString(s) {
		s = strings.ToValidUTF8(s, "?")
	}
	return strings.ReplaceAll(s, string(utf8.RuneError), "?")
}

func genFloat(t *rapid.T, label string) float64 {
	if rapid.IntRange(0, 3).Draw(t, label+"kind") == 0 {
		return rapid.SampledFrom([]float64{0, 1, -1, 0.1, 1e21, 1e-7, math.MaxFloat64, math.SmallestNonzeroFloat64, 3.141592653589793, -2.5e-300}).Draw(t, label+"pool")
	}
	f := rapid.Float64().Draw(t, label)
	if math.IsNaN(f) || math.IsInf(f, 0) {
		f = 0
	}
	return f
}

func genI64(t *rapid.T, label string) int64 {
	if rapid.IntRange(0, 2).Draw(t, label+"kind") == 0 {
		return rapid.SampledFrom([]int64{0, 1, -1, math.MaxInt64, math.MinInt64, 1 << 53, 1<<53 + 1, -(1<<53 + 1), 9007199254740993}).Draw(t, label+"pool")
	}
	return rapid.Int64().Draw(t, label)
}

func genEntityVal(t *rapid.T, codec string) EntityVal {
	var v EntityVal
	v.I64 = genI64(t, "i64")
	if rapid.IntRange(0, 2).Draw(t, "u64kind") == 0 {
		v.U64 = rapid.SampledFrom([]uint64{0, 1, math.MaxUint64, 1 << 63, 1<<53 + 1}).Draw(t, "u64pool")
	} else {
		v.U64 = rapid.Uint64().Draw(t, "u64")
	}
	v.F = fbits(genFloat(t, "f"))
	v.B = rapid.Bool().Draw(t, "b")
	v.S = genString(t, "s")
	v.InS = genString(t, "ins")
	v.InF = fbits(genFloat(t, "inf"))
	v.Attr = genString(t, "attr")
	n := rapid.IntRange(0, 3).Draw(t, "nss")
	for i := 0; i < n; i++ {
		v.SS = append(v.SS, genString(t, "ss"))
	}
	n = rapid.IntRange(0, 3).Draw(t, "nii")
	for i := 0; i < n; i++ {
		v.II = append(v.II, genI64(t, "ii"))
	}
	if rapid.Bool().Draw(t, "hasps") {
		s := genString(t, "ps")
		v.PS = &s
	}
	if rapid.Bool().Draw(t, "haspi") {
		i := genI64(t, "pi")
		v.PI = &i
	}
	if rapid.Bool().Draw(t, "hasany") {
		v.Any = strconv.FormatInt(genI64(t, "any"), 10)
	}
	n = rapid.IntRange(0, 2).Draw(t, "nmap")
	for i := 0; i < n; i++ {
		if v.Map == nil {
			v.Map = map[string]string{}
		}
		v.Map[genString(t, "mapk")] = genString(t, "mapv")
	}
	if codec == "xml" {
		v.S, v.InS, v.Attr = xmlLegal(v.S), xmlLegal(v.InS), xmlLegal(v.Attr)
		for i := range v.SS {
			v.SS[i] = xmlLegal(v.SS[i])
		}
		if v.PS != nil {
			s := xmlLegal(*v.PS)
			v.PS = &s
		}
		v.Any, v.Map = "", nil
	}
	return v
}

func (v EntityVal) asJSON() entityJ {
	e := entityJ{I64: v.I64, U64: v.U64, F: ffrom(v.F), B: v.B, S: v.S, In: innerJ{v.InS, ffrom(v.InF)}, SS: v.SS, II: v.II, PS: v.PS, PI: v.PI, Map: v.Map}
	if v.Any != "" {
		n, _ := strconv.ParseInt(v.Any, 10, 64)
		e.Any = n
	}
	return e
}

func (v EntityVal) asXML() entityX {
	return entityX{I64: v.I64, U64: v.U64, F: ffrom(v.F), B: v.B, S: v.S, Attr: v.Attr, In: innerX{v.InS, ffrom(v.InF)}, SS: v.SS, II: v.II, PS: v.PS, PI: v.PI}
}

func genC16(t *rapid.T) C16Case {
	c := C16Case{Provider: rapid.SampledFrom([]string{"pool", "bounded0", "bounded1", "bounded4"}).Draw(t, "provider")}
	n := rapid.IntRange(1, 12).Draw(t, "nreqs")
	for i := 0; i < n; i++ {
		r := C16Req{Codec: rapid.SampledFrom([]string{"json", "xml"}).Draw(t, "codec")}
		r.Val = genEntityVal(t, r.Codec)
		r.Pretty = rapid.Bool().Draw(t, "pretty")
		r.CTForm = rapid.IntRange(0, 4).Draw(t, "ctform")
		r.Encoding = rapid.SampledFrom([]string{"", "gzip", "gzip", "deflate"}).Draw(t, "encoding")
		r.Members = rapid.SampledFrom([]int{1, 1, 1, 2, 3}).Draw(t, "members")
		r.Lvl = rapid.SampledFrom([]int{0, 0, 0, 1, 3, 4, 5, 6, 8, 9, 12}).Draw(t, "level")
		if rapid.IntRange(0, 5).Draw(t, "padded") == 0 {
			r.Pad = rapid.SampledFrom([]int{1, 100, 5000, 20000}).Draw(t, "pad")
		}
		if r.Encoding != "" && rapid.IntRange(0, 7).Draw(t, "spelled") == 0 {
			r.EncSpelling = rapid.IntRange(1, 4).Draw(t, "encspelling")
		}
		if rapid.IntRange(0, 9).Draw(t, "damaged") < 4 {
			if r.Encoding == "" {
				r.Damage = rapid.SampledFrom([]string{"syntax", "garbage"}).Draw(t, "damage")
			} else {
				r.Damage = rapid.SampledFrom([]string{"trunc_header", "trunc_stream", "trunc_trailer", "bitflip", "garbage", "syntax"}).Draw(t, "damage")
			}
			r.DamagePM = rapid.IntRange(0, 999).Draw(t, "damagepm")
		}
		c.Reqs = append(c.Reqs, r)
	}
	c.LateReader = rapid.IntRange(0, 11).Draw(t, "latereader") == 0
	return c
}

func compressBody(enc string, plain []byte, members int, lvl ...int) []byte {
	level := -1
	if len(lvl) > 0 && lvl[0] > 0 {
		level = lvl[0] - 3
	}
	var buf bytes.Buffer
	switch enc {
	case "gzip":
		if members < 1 {
			members = 1
		}
		chunk := (len(plain) + members - 1) / members
		for m := 0; m < members; m++ {
			lo, hi := m*chunk, (m+1)*chunk
			if lo > len(plain) {
				lo = len(plain)
			}
			if hi > len(plain) {
				hi = len(plain)
			}
			w, _ := gzip.NewWriterLevel(&buf, level)
			w.Write(plain[lo:hi])
			w.Close()
		}
	case "deflate":
		w, _ := zlib.NewWriterLevel(&buf, level)
		w.Write(plain)
		w.Close()
	default:
		return plain
	}
	return buf.Bytes()
}

// damageBody breaks a body; the returned flag tells whether the damage is certain to hit
// the payload or its framing before the entity is complete (then an error is required).
func damageBody(r C16Req, plain, wire []byte) ([]byte, bool) {
	pm := func(n int) int { return n * r.DamagePM / 1000 }
	switch r.Damage {
	case "trunc_header":
		hdr := 10
		if r.Encoding == "deflate" {
			hdr = 2
		}
		if len(wire) < hdr {
			hdr = len(wire)
		}
		return wire[:pm(hdr)], true
	case "trunc_stream":
		tr := 8
		if r.Encoding == "deflate" {
			tr = 4
		}
		lo, hi := 10, len(wire)-tr
		if hi <= lo {
			return wire[:len(wire)/2], true
		}
		return wire[:lo+pm(hi-lo)], true // a cut stream is broken even if the entity's own bytes are complete
	case "trunc_trailer":
		tr := 8
		if r.Encoding == "deflate" {
			tr = 4
		}
		if len(wire) <= tr {
			return wire[:len(wire)/2], true
		}
		return wire[:len(wire)-tr+pm(tr)], true // the payload is complete, the checksum is cut: still a broken stream
	case "bitflip":
		b := append([]byte{}, wire...)
		if len(b) > 0 {
			i := pm(len(b))
			b[i] ^= 1 << uint(r.DamagePM%8)
		}
		return b, false // may hit a don't-care bit (header mtime, OS byte) or only the checksum
	case "garbage":
		return []byte("\x00\x01garbage that is neither a codec document nor a compressed stream" + strconv.Itoa(r.DamagePM)), true
	case "syntax":
		// break the document itself before compressing: cut it short
		cut := pm(len(plain))
		return compressBody(r.Encoding, plain[:cut], r.Members, r.Lvl), false // cutting only a trailing newline leaves a complete document
	}
	return wire, false
}

func checkC16(c C16Case) (vs []*Violation) {
	st := stats.For("C16", "TestC16")
	defer harness.ResetGlobals()
	ledger := harness.NewLedger(harness.ProviderFor(c.Provider))
	restful.SetCompressorProvider(ledger)

	type readResult struct {
		err error
		j   entityJ
		x   entityX
	}
	var last readResult
	var codecNow string
	ct := restful.NewContainer()
	ws := new(restful.WebService)
	ws.Path("/")
	reader := func(req *restful.Request, resp *restful.Response) {
		last = readResult{}
		if codecNow == "json" {
			last.err = req.ReadEntity(&last.j)
		} else {
			last.err = req.ReadEntity(&last.x)
		}
		resp.WriteHeader(204)
	}
	ws.Route(ws.POST("/e").To(reader))
	// the same, on routes that document what they read (by pointer and by value, as the
	// library's own examples do); documentation declares nothing
	ws.Route(ws.POST("/ej").Reads(&entityJ{}).To(reader))
	ws.Route(ws.POST("/ex").Reads(entityX{}).To(reader))
	// the writer side: the entity is written by the entity writer selected by Accept
	var toWrite interface{}
	ws.Route(ws.GET("/w").Produces(restful.MIME_JSON, restful.MIME_XML).To(func(req *restful.Request, resp *restful.Response) {
		resp.WriteEntity(toWrite)
	}))
	ct.Add(ws)
	rec := harness.NewRecorder()

	labels := []string{"provider_" + c.Provider}
	nontrivial := false
	prevBroken := false
	if c.LateReader {
		// (the registry cannot forget: fresh names per evaluation)
		n := atomic.AddInt64(&c16LateCounter, 2)
		k1 := "application/vnd.c16late" + strconv.FormatInt(n, 10) + "+json"
		k2 := "application/vnd.c16late" + strconv.FormatInt(n+1, 10) + "+json"
		send := func(k, id string) (error, int64) {
			codecNow = "json"
			last = readResult{err: fmt.Errorf("handler did not run")}
			q := model.ReqSpec{Method: "POST", Path: "/e", Body: `{"i64":4611686018427387905}`, Headers: []model.H{{K: "Content-Type", V: k + "; charset=utf-8"}}}
			harness.Do(ct, rec, q, harness.ViaDispatch, id)
			return last.err, last.j.I64
		}
		send(k1, "late0") // nobody reads this type yet: whatever the answer is, it is this request's
		restful.RegisterEntityAccessor(k1, restful.NewEntityAccessorJSON(k1))
		restful.RegisterEntityAccessor(k2, restful.NewEntityAccessorJSON(k2))
		e1, v1 := send(k1, "late1")
		e2, v2 := send(k2, "late2")
		labels = append(labels, "reader_registered_late")
		if e1 != nil || e2 != nil || v1 != 4611686018427387905 || v2 != v1 {
			vs = append(vs, viol("", "two media types whose JSON reader was registered after the service was up: the one that had been asked for once before reads (err=%v, value=%d), the other one (err=%v, value=%d)", e1, v1, e2, v2))
		}
	}
	for i, r := range c.Reqs {
		mime := restful.MIME_JSON
		if r.Codec == "xml" {
			mime = restful.MIME_XML
		}
		where := fmt.Sprintf("req#%d %s enc=%q members=%d ctform=%d damage=%q", i, r.Codec, spellEncoding(r.Encoding+"", r.EncSpelling), r.Members, r.CTForm, r.Damage)
		// 1. write
		restful.PrettyPrintResponses = r.Pretty
		restful.DefaultRequestContentType("")
		if r.Codec == "json" {
			toWrite = r.Val.asJSON()
		} else {
			toWrite = r.Val.asXML()
		}
		wo := harness.Do(ct, rec, model.ReqSpec{Method: "GET", Path: "/w", Headers: []model.H{{K: "Accept", V: mime}}}, harness.ViaDispatch, strconv.Itoa(i)+"w")
		if wo.Panic != "" || wo.Status != 200 {
			vs = append(vs, viol("", "%s: writing the entity failed: status %d panic %q", where, wo.Status, wo.Panic))
			continue
		}
		plain := wo.Body
		if r.Pad > 0 {
			plain = append(append([]byte{}, plain...), bytes.Repeat([]byte(" \n"), (r.Pad+1)/2)...)
			labels = append(labels, "document_followed_by_white_space")
		}
		// 2. read it back
		wire := compressBody(r.Encoding, plain, r.Members, r.Lvl)
		mustFail := false
		if r.Damage != "" {
			wire, mustFail = damageBody(r, plain, wire)
			if mustFail && r.Encoding != "" && strings.HasPrefix(r.Damage, "trunc_") {
				// a cut that falls exactly between two gzip members leaves a sound stream of fewer
				// members (with white space behind the document the entity may even be complete):
				// "broken" is what the reference decoder calls broken
				if _, err := decodeBody(r.Encoding, wire); err == nil && len(wire) > 0 {
					mustFail = false
					labels = append(labels, "cut_at_a_member_boundary")
				}
			}
		}
		q := model.ReqSpec{Method: "POST", Path: "/e", Body: string(wire)}
		if i%3 == 1 {
			q.Path = map[string]string{"json": "/ej", "xml": "/ex"}[r.Codec]
		}
		switch r.CTForm {
		case 0:
			q.Headers = append(q.Headers, model.H{K: "Content-Type", V: mime})
		case 1:
			q.Headers = append(q.Headers, model.H{K: "Content-Type", V: mime + "; charset=utf-8"})
		case 2:
			q.Headers = append(q.Headers, model.H{K: "Content-Type", V: mime + " ;charset=UTF-8"})
		case 4: // a parameter value may be a quoted-string (RFC 7231 3.1.1.1); it says the same
			q.Headers = append(q.Headers, model.H{K: "Content-Type", V: mime + `; charset="utf-8"`})
		default:
			restful.DefaultRequestContentType(mime)
		}
		if r.Encoding != "" {
			q.Headers = append(q.Headers, model.H{K: "Content-Encoding", V: spellEncoding(r.Encoding, r.EncSpelling)})
		}
		if len(wire) == 0 {
			// an empty body cannot be sent with a positive Content-Length; it is "broken" all the same
			q.Body = ""
		}
		codecNow = r.Codec
		last = readResult{err: fmt.Errorf("handler did not run")}
		ro := harness.Do(ct, rec, q, harness.ViaDispatch, strconv.Itoa(i)+"r")
		if ro.Panic != "" {
			vs = append(vs, viol("", "%s: ReadEntity panicked: %s", where, ro.Panic))
			prevBroken = true
			continue
		}
		if ro.Status != 204 {
			vs = append(vs, viol("", "%s: echo route not reached: status %d", where, ro.Status))
			continue
		}
		equal := false
		if r.Codec == "json" {
			equal = jsonEqual(r.Val, last.j)
		} else {
			equal = xmlEqual(r.Val.asXML(), last.x)
		}
		switch {
		case r.Damage == "":
			labels = append(labels, "wellformed_"+r.Codec+"_"+r.Encoding)
			if r.EncSpelling != 0 && r.Encoding != "" && spellEncoding(r.Encoding, r.EncSpelling) != r.Encoding {
				// a spelling the documentation does not name: recognised (equal) or not (an error)
				labels = append(labels, "encoding_spelled_differently")
				if last.err == nil && !equal {
					vs = append(vs, viol("", "%s: Content-Encoding %q: ReadEntity returned no error and a value different from the one sent", where, spellEncoding(r.Encoding, r.EncSpelling)))
				}
				prevBroken = last.err != nil
				break
			}
			if last.err != nil {
				vs = append(vs, viol("", "%s: reading a well-formed body failed: %v (body %q)", where, last.err, truncate(plain, 300)))
			} else if !equal {
				vs = append(vs, viol("", "%s: value read back differs from the value written (document %q)", where, truncate(plain, 400)))
			}
			if prevBroken && r.Encoding != "" {
				nontrivial = true
				labels = append(labels, "wellformed_compressed_after_broken")
			}
			if r.Val.I64 > 1<<53 || r.Val.I64 < -(1<<53) || r.Val.U64 > 1<<53 || strings.ContainsRune(r.Val.S, '\U0001F600') {
				nontrivial = true
			}
			prevBroken = false
		default:
			labels = append(labels, "damage_"+r.Damage)
			if last.err == nil {
				if mustFail {
					vs = append(vs, viol("", "%s: the body is broken (%d of %d wire bytes) but ReadEntity returned no error", where, len(wire), len(compressBody(r.Encoding, plain, r.Members, r.Lvl))))
				} else if !equal {
					sig := ""
					if r.Damage == "bitflip" {
						sig = "D15"
					}
					vs = append(vs, viol(sig, "%s: the body is broken, yet ReadEntity returned no error and a value different from the one sent", where))
				} else {
					labels = append(labels, "damage_outside_payload_undetected")
				}
			}
			prevBroken = true
		}
		if h := ledger.Held(); h != 0 {
			vs = append(vs, viol("", "%s: %d pooled objects are still held after the request", where, h))
		}
	}
	for _, p := range ledger.Problems() {
		vs = append(vs, viol("", "provider %s: %s", c.Provider, p))
	}
	st.Case(c, nontrivial, labels...)
	return vs
}

func truncate(b []byte, n int) string {
	if len(b) > n {
		return string(b[:n]) + "…"
	}
	return string(b)
}

func normStrings(s []string) []string {
	if len(s) == 0 {
		return nil
	}
	return s
}

func normInts(s []int64) []int64 {
	if len(s) == 0 {
		return nil
	}
	return s
}

func ptrEqS(a, b *string) bool {
	if a == nil || b == nil {
		return a == nil && b == nil
	}
	return *a == *b
}

func ptrEqI(a, b *int64) bool {
	if a == nil || b == nil {
		return a == nil && b == nil
	}
	return *a == *b
}

func sameFloat(a, b float64) bool { return a == b || (a == 0 && b == 0) }

func jsonEqual(v EntityVal, got entityJ) bool {
	w := v.asJSON()
	if w.I64 != got.I64 || w.U64 != got.U64 || !sameFloat(w.F, got.F) || w.B != got.B || w.S != got.S || w.In.S != got.In.S || !sameFloat(w.In.F, got.In.F) {
		return false
	}
	if !reflect.DeepEqual(normStrings(w.SS), normStrings(got.SS)) || !reflect.DeepEqual(normInts(w.II), normInts(got.II)) || !ptrEqS(w.PS, got.PS) || !ptrEqI(w.PI, got.PI) {
		return false
	}
	if len(w.Map) != len(got.Map) {
		return false
	}
	for k, x := range w.Map {
		if y, ok := got.Map[k]; !ok || x != y {
			return false
		}
	}
	// a 64-bit integer held in an interface must come back as the same number
	if v.Any == "" {
		return got.Any == nil
	}
	n, ok := got.Any.(json.Number)
	return ok && n.String() == v.Any
}

func xmlEqual(w, got entityX) bool {
	if w.I64 != got.I64 || w.U64 != got.U64 || !sameFloat(w.F, got.F) || w.B != got.B || w.S != got.S || w.Attr != got.Attr || w.In.S != got.In.S || !sameFloat(w.In.F, got.In.F) {
		return false
	}
	return reflect.DeepEqual(normStrings(w.SS), normStrings(got.SS)) && reflect.DeepEqual(normInts(w.II), normInts(got.II)) && ptrEqS(w.PS, got.PS) && ptrEqI(w.PI, got.PI)
}

func TestC16(t *testing.T) {
	rapid.Check(t, func(t *rapid.T) {
		harness.ResetGlobals()
		c := genC16(t)
		report(t, "C16", "TestC16", c, checkC16(c))
	})
}
