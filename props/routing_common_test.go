package props

import (
	"fmt"
	"sort"
	"strings"

	restful "github.com/emicklei/go-restful/v3"
	"pgregory.net/rapid"

	"verif/internal/gen"
	"verif/internal/harness"
	"verif/internal/model"
)

// RoutingCase is the shared case shape of the routing properties.
type RoutingCase struct {
	Router string           `json:"router,omitempty"`
	Trace  bool             `json:"trace,omitempty"`
	Via    string           `json:"via,omitempty"`
	Table  model.TableSpec  `json:"table"`
	Reqs   []model.ReqSpec  `json:"reqs"`
	Perm   *Permutation     `json:"perm,omitempty"`
	Extra  map[string]int64 `json:"extra,omitempty"`
}

// Permutation reorders services and, per (original) service, its routes.
type Permutation struct {
	Services []int   `json:"services"`
	Routes   [][]int `json:"routes"`
}

func genRequests(t *rapid.T, tb model.TableSpec, cfg gen.Cfg, min, max int) []model.ReqSpec {
	n := rapid.IntRange(min, max).Draw(t, "nreqs")
	reqs := make([]model.ReqSpec, 0, n)
	for i := 0; i < n; i++ {
		reqs = append(reqs, gen.Request(t, tb, cfg))
	}
	return reqs
}

// buildDispatchOnly builds a container for checks that only use Container.Dispatch. The
// ServeMux plays no role there, so a fresh mux is installed before every Add: this keeps
// the ServeMux pattern clashes of known finding D7 (a C11 matter) out of the routing checks.
func buildDispatchOnly(tb model.TableSpec, router string, rec *harness.Recorder, nContainerFilters int) (*restful.Container, interface{}) {
	opt := &harness.Options{Router: router, ContainerFilters: nContainerFilters}
	return buildWith(tb, opt, rec, true)
}

func buildDispatchOnlySwapped(tb model.TableSpec, router string, rec *harness.Recorder, nContainerFilters int) (*restful.Container, interface{}) {
	opt := &harness.Options{Router: router, ContainerFilters: nContainerFilters, SwapRouterFirst: true}
	return buildWith(tb, opt, rec, true)
}

func buildWith(tb model.TableSpec, opt *harness.Options, rec *harness.Recorder, freshMux bool) (c *restful.Container, panicked interface{}) {
	defer func() {
		if r := recover(); r != nil {
			panicked = r
		}
	}()
	empty := model.TableSpec{}
	c, _ = harness.Build(empty, opt, rec, nil)
	for _, s := range tb.Services {
		ws := harness.NewService(s, rec, opt.Handler)
		opt.Services = append(opt.Services, ws)
		if freshMux {
			c.ServeMux = newMux()
		}
		c.Add(ws)
	}
	return c, nil
}

func tableHasMuxConflict(tb model.TableSpec) bool {
	for i := range tb.Services {
		for j := i + 1; j < len(tb.Services); j++ {
			if gen.MuxConflict(tb.Services[i].Root, tb.Services[j].Root) {
				return true
			}
		}
	}
	return false
}

func paramsString(p map[string]string) string {
	ks := make([]string, 0, len(p))
	for k := range p {
		ks = append(ks, k)
	}
	sort.Strings(ks)
	var sb strings.Builder
	for _, k := range ks {
		fmt.Fprintf(&sb, "%s=%q ", k, p[k])
	}
	return sb.String()
}

func observed(o harness.Outcome) model.Observed {
	return model.Observed{Status: o.Status, Route: o.Route(), Allow: o.Allow}
}

// outcomeClass labels an outcome for the histograms.
func outcomeClass(o harness.Outcome) string {
	if o.Panic != "" {
		return "panic"
	}
	if len(o.Ran) > 0 {
		return "ran"
	}
	return fmt.Sprint(o.Status)
}
