package props

import (
	"bufio"
	"bytes"
	"compress/gzip"
	"compress/zlib"
	"errors"
	"fmt"
	"io"
	"net"
	"net/http"
	"net/http/httptest"
	"runtime"
	"strconv"
	"strings"
	"sync"
	"testing"
	"time"

	restful "github.com/emicklei/go-restful/v3"
	"pgregory.net/rapid"

	"verif/internal/harness"
	"verif/internal/model"
	"verif/internal/stats"
)

// C13 – pooled compressors are never shared, lost twice, or a reason to block.

func init() {
	registerPart("C13", "TestC13Seq", jsonReplay(checkC13Seq))
	registerPart("C13", "TestC13Conc", jsonReplay(checkC13Conc))
	registerPart("C13", "TestC13Release", jsonReplay(checkC13Release))
}

// ---------------------------------------------------------------------------------------
// (a) sequential, model based

// C13SeqCase is a history of compressor-using operations on one process-wide provider.
type C13SeqCase struct {
	Provider string  `json:"provider"`
	Ops      []C13Op `json:"ops"`
}

// C13Op is one step.
type C13Op struct {
	Op       string `json:"op"` // resp_ok, resp_fail, resp_panic, read_ok, read_trunc, read_corrupt, explicit, swap, mux_own
	Encoding string `json:"encoding,omitempty"`
	Size     int    `json:"size,omitempty"`
	Provider string `json:"provider,omitempty"` // swap
	FailAt   int    `json:"fail_at,omitempty"`
	// Dispatch: the request enters through Container.Dispatch, so the compressor is installed (and
	// owned) by dispatch itself rather than by ServeHTTP
	Dispatch bool `json:"dispatch,omitempty"`
}

var c13Providers = []string{"pool", "bounded0", "bounded1", "bounded4", "bounded1-3", "custom"}

// hijackableRecorder is a recorder whose connection can be taken over (http.Hijacker), as a
// real server's can; the connection handed out is a dummy.
type hijackableRecorder struct {
	*httptest.ResponseRecorder
	hijacked int
}

type dummyConn struct{ net.Conn }

func (dummyConn) Close() error                { return nil }
func (dummyConn) Write(p []byte) (int, error) { return len(p), nil }
func (dummyConn) Read(p []byte) (int, error)  { return 0, io.EOF }

func (h *hijackableRecorder) Hijack() (net.Conn, *bufio.ReadWriter, error) {
	h.hijacked++
	c := dummyConn{}
	return c, bufio.NewReadWriter(bufio.NewReader(c), bufio.NewWriter(c)), nil
}

// customProvider is a trivial third-party provider: always new objects, releases are dropped.
type customProvider struct{}

func (customProvider) AcquireGzipWriter() *gzip.Writer {
	w, _ := gzip.NewWriterLevel(new(bytes.Buffer), gzip.BestSpeed)
	return w
}
func (customProvider) ReleaseGzipWriter(w *gzip.Writer) {}
func (customProvider) AcquireGzipReader() *gzip.Reader  { return new(gzip.Reader) }
func (customProvider) ReleaseGzipReader(r *gzip.Reader) {}
func (customProvider) AcquireZlibWriter() *zlib.Writer {
	w, _ := zlib.NewWriterLevel(new(bytes.Buffer), zlib.BestSpeed)
	return w
}
func (customProvider) ReleaseZlibWriter(w *zlib.Writer) {}

func c13Provider(kind string) restful.CompressorProvider {
	if kind == "custom" {
		return customProvider{}
	}
	return harness.ProviderFor(kind)
}

func genC13Seq(t *rapid.T) C13SeqCase {
	c := C13SeqCase{Provider: rapid.SampledFrom(c13Providers).Draw(t, "provider")}
	n := rapid.IntRange(1, 25).Draw(t, "nops")
	for i := 0; i < n; i++ {
		op := C13Op{Op: rapid.SampledFrom([]string{"resp_ok", "resp_ok", "resp_fail", "resp_panic", "read_ok", "read_trunc", "read_corrupt", "explicit", "swap", "mux_own", "resp_hijack"}).Draw(t, "op")}
		op.Encoding = rapid.SampledFrom([]string{"gzip", "deflate"}).Draw(t, "encoding")
		op.Size = rapid.SampledFrom([]int{0, 1, 100, 5000, 70000}).Draw(t, "size")
		op.FailAt = rapid.IntRange(0, 200).Draw(t, "failat")
		op.Dispatch = rapid.IntRange(0, 2).Draw(t, "viadispatch") == 0
		if op.Op == "swap" {
			op.Provider = rapid.SampledFrom(c13Providers).Draw(t, "newprovider")
		}
		c.Ops = append(c.Ops, op)
	}
	return c
}

func decodeBody(enc string, raw []byte) ([]byte, error) {
	switch enc {
	case "gzip":
		zr, err := gzip.NewReader(bytes.NewReader(raw))
		if err != nil {
			return nil, err
		}
		return io.ReadAll(zr)
	case "deflate":
		zr, err := zlib.NewReader(bytes.NewReader(raw))
		if err != nil {
			return nil, err
		}
		return io.ReadAll(zr)
	}
	return raw, nil
}

func checkC13Seq(c C13SeqCase) (vs []*Violation) {
	st := stats.For("C13", "TestC13Seq")
	defer harness.ResetGlobals()
	ledger := harness.NewLedger(c13Provider(c.Provider))
	restful.SetCompressorProvider(ledger)
	var ledgers []*harness.Ledger
	ledgers = append(ledgers, ledger)

	ct := restful.NewContainer()
	ct.EnableContentEncoding(true)
	ct.DoNotRecover(false)
	ct.RecoverHandler(func(p interface{}, w http.ResponseWriter) { w.WriteHeader(500); w.Write([]byte("recovered")) })
	ws := new(restful.WebService)
	ws.Path("/")
	var size int
	var panics bool
	ws.Route(ws.GET("/w").To(func(req *restful.Request, resp *restful.Response) {
		resp.Write(payload(size, 3))
		if panics {
			panic("generated")
		}
		resp.Write(payload(size/2, 5))
	}))
	ws.Route(ws.GET("/h").To(func(req *restful.Request, resp *restful.Response) {
		// a protocol upgrade: the route function takes the connection over
		if conn, _, err := resp.Hijack(); err == nil && conn != nil {
			conn.Write([]byte("HTTP/1.1 101 Switching Protocols\r\n\r\n"))
			conn.Close()
		}
	}))
	var readErr error
	var readVal map[string]interface{}
	ws.Route(ws.POST("/r").To(func(req *restful.Request, resp *restful.Response) {
		readVal = nil
		readErr = req.ReadEntity(&readVal)
		resp.WriteHeader(204)
	}))
	ct.Add(ws)

	labels := []string{"provider_" + c.Provider}
	nontrivial := false
	for i, op := range c.Ops {
		where := fmt.Sprintf("step %d %s(%s,%d)", i, op.Op, op.Encoding, op.Size)
		labels = append(labels, "op_"+op.Op)
		switch op.Op {
		case "resp_ok", "resp_panic":
			size, panics = op.Size, op.Op == "resp_panic"
			hr := harness.NewHTTPRequest(model.ReqSpec{Method: "GET", Path: "/w", Headers: []model.H{{K: "Accept-Encoding", V: op.Encoding}}}, "s")
			w := httptest.NewRecorder()
			var pan interface{}
			func() {
				defer func() { pan = recover() }()
				if op.Dispatch {
					ct.Dispatch(w, hr)
				} else {
					ct.ServeHTTP(w, hr)
				}
			}()
			if op.Dispatch {
				where += " via Dispatch"
			}
			if pan != nil {
				vs = append(vs, viol("", "%s: panic escaped: %v", where, pan))
			}
			want := payload(op.Size, 3)
			if panics {
				want = append(want, []byte("recovered")...)
				nontrivial = true
			} else {
				want = append(want, payload(op.Size/2, 5)...)
			}
			got, err := decodeBody(w.Header().Get("Content-Encoding"), w.Body.Bytes())
			if err != nil || !bytes.Equal(got, want) {
				vs = append(vs, viol("", "%s: response does not decode to its own payload (err=%v, %d vs %d bytes)", where, err, len(got), len(want)))
			}
		case "resp_hijack":
			hr := harness.NewHTTPRequest(model.ReqSpec{Method: "GET", Path: "/h", Headers: []model.H{{K: "Accept-Encoding", V: op.Encoding}}}, "s")
			w := &hijackableRecorder{ResponseRecorder: httptest.NewRecorder()}
			var pan interface{}
			func() {
				defer func() { pan = recover() }()
				if op.Dispatch {
					ct.Dispatch(w, hr)
				} else {
					ct.ServeHTTP(w, hr)
				}
			}()
			if pan != nil {
				vs = append(vs, viol("", "%s: panic escaped: %v", where, pan))
			}
			if w.hijacked != 1 {
				vs = append(vs, viol("", "%s: the route function's Hijack reached the connection %d times", where, w.hijacked))
			}
			nontrivial = true
		case "resp_fail":
			size, panics = op.Size, false
			hr := harness.NewHTTPRequest(model.ReqSpec{Method: "GET", Path: "/w", Headers: []model.H{{K: "Accept-Encoding", V: op.Encoding}}}, "s")
			cw := newCountingWriter(op.FailAt)
			var pan interface{}
			func() { defer func() { pan = recover() }(); ct.ServeHTTP(cw, hr) }()
			if pan != nil {
				vs = append(vs, viol("", "%s: panic escaped: %v", where, pan))
			}
			nontrivial = true
		case "read_ok", "read_trunc", "read_corrupt":
			doc := []byte(`{"n":` + strconv.Itoa(i) + `,"pad":"` + string(payload(op.Size%6000, 1)) + `"}`)
			body := compressBody("gzip", doc, 1)
			switch op.Op {
			case "read_trunc":
				body = body[:len(body)*(op.FailAt%100)/100]
				nontrivial = true
			case "read_corrupt":
				body = append([]byte("corrupt"), body...)
				nontrivial = true
			}
			q := model.ReqSpec{Method: "POST", Path: "/r", Body: string(body), Headers: []model.H{{K: "Content-Type", V: "application/json"}, {K: "Content-Encoding", V: "gzip"}}}
			hr := harness.NewHTTPRequest(q, "s")
			w := httptest.NewRecorder()
			var pan interface{}
			func() { defer func() { pan = recover() }(); ct.ServeHTTP(w, hr) }()
			if pan != nil {
				vs = append(vs, viol("", "%s: panic escaped: %v", where, pan))
			}
			if op.Op == "read_ok" && (readErr != nil || fmt.Sprint(readVal["n"]) != strconv.Itoa(i)) {
				vs = append(vs, viol("", "%s: a well-formed gzip body does not read back (err=%v, n=%v)", where, readErr, readVal["n"]))
			}
		case "explicit":
			rec := httptest.NewRecorder()
			cur := ledgers[len(ledgers)-1]
			before := cur.Releases
			cw, err := restful.NewCompressingResponseWriter(rec, op.Encoding)
			if err != nil {
				vs = append(vs, viol("", "%s: NewCompressingResponseWriter: %v", where, err))
				break
			}
			cw.Write(payload(op.Size, 7))
			if err := cw.Close(); err != nil {
				vs = append(vs, viol("", "%s: first Close returned %v", where, err))
			}
			mid := cur.Releases
			if err := cw.Close(); err == nil {
				vs = append(vs, viol("", "%s: closing the response writer twice is not reported as an error", where))
			}
			if cur.Releases != mid {
				vs = append(vs, viol("", "%s: the second Close released a compressor again", where))
			}
			if _, err := cw.Write([]byte("after close")); err == nil {
				vs = append(vs, viol("", "%s: Write after Close succeeded", where))
			}
			if mid-before != 1 {
				vs = append(vs, viol("", "%s: the first Close released %d objects", where, mid-before))
			}
			got, derr := decodeBody(op.Encoding, rec.Body.Bytes())
			if derr != nil || !bytes.Equal(got, payload(op.Size, 7)) {
				vs = append(vs, viol("", "%s: explicit writer output does not decode (err=%v)", where, derr))
			}
		case "mux_own":
			// a second container that is not mounted on "/": net/http's mux answers by itself (404 for
			// a path outside every root, 301 for a path it wants cleaned); the compressor ServeHTTP
			// acquired for that response is released like any other
			ct2 := restful.NewContainer()
			ct2.EnableContentEncoding(true)
			api := new(restful.WebService)
			api.Path("/api")
			api.Route(api.GET("/x").To(func(req *restful.Request, resp *restful.Response) { resp.Write([]byte("x")) }))
			ct2.Add(api)
			path := "/nowhere"
			if op.Size > 100 {
				path = "/api//x"
			}
			hr := httptest.NewRequest("GET", "http://h"+path, nil)
			hr.Header.Set("Accept-Encoding", op.Encoding)
			w := httptest.NewRecorder()
			var pan interface{}
			func() { defer func() { pan = recover() }(); ct2.ServeHTTP(w, hr) }()
			if pan != nil {
				vs = append(vs, viol("", "%s: panic escaped: %v", where, pan))
			}
			if _, err := decodeBody(w.Header().Get("Content-Encoding"), w.Body.Bytes()); err != nil {
				vs = append(vs, viol("", "%s: the mux's own answer to %s (status %d) does not decode: %v", where, path, w.Code, err))
			}
		case "swap":
			l := harness.NewLedger(c13Provider(op.Provider))
			restful.SetCompressorProvider(l)
			ledgers = append(ledgers, l)
			labels = append(labels, "swapped_provider")
		}
		for li, l := range ledgers {
			if h := l.Held(); h != 0 {
				vs = append(vs, viol("", "%s: provider #%d still holds %d acquired objects", where, li, h))
			}
			for _, p := range l.Problems() {
				vs = append(vs, viol("", "%s: provider #%d: %s", where, li, p))
			}
		}
		if len(vs) > 0 {
			break
		}
	}
	st.Case(c, nontrivial, labels...)
	return vs
}

func TestC13Seq(t *testing.T) {
	rapid.Check(t, func(t *rapid.T) {
		harness.ResetGlobals()
		c := genC13Seq(t)
		report(t, "C13", "TestC13Seq", c, checkC13Seq(c))
	})
}

// ---------------------------------------------------------------------------------------
// (b) concurrent encoded responses (race build)

// C13ConcCase: N goroutines against one provider.
type C13ConcCase struct {
	Provider string `json:"provider"` // pool, custom, bounded
	Capacity int    `json:"capacity"`
	N        int    `json:"n"`
	Rounds   int    `json:"rounds"`
	Reads    bool   `json:"reads"` // half of the workers send gzip request bodies instead
}

func genC13Conc(t *rapid.T) C13ConcCase {
	c := C13ConcCase{N: rapid.SampledFrom([]int{1, 2, 3, 4, 8, 16, 32, 64}).Draw(t, "n")}
	c.Provider = rapid.SampledFrom([]string{"pool", "custom", "bounded", "bounded", "bounded"}).Draw(t, "provider")
	c.Capacity = rapid.SampledFrom([]int{0, 1, 2, c.N - 1, c.N, c.N + 1}).Draw(t, "capacity")
	if c.Capacity < 0 {
		c.Capacity = 0
	}
	c.Rounds = rapid.IntRange(1, 20).Draw(t, "rounds")
	c.Reads = rapid.Bool().Draw(t, "reads")
	return c
}

func checkC13Conc(c C13ConcCase) (vs []*Violation) {
	st := stats.For("C13", "TestC13Conc")
	defer harness.ResetGlobals()
	var inner restful.CompressorProvider
	switch c.Provider {
	case "bounded":
		// (the reader cache is one smaller or larger in two of three cases)
		inner = restful.NewBoundedCachedCompressors(c.Capacity, max(0, c.Capacity+(c.N%3)-1))
	case "custom":
		inner = customProvider{}
	default:
		inner = restful.NewSyncPoolCompessors()
	}
	ledger := harness.NewLedger(inner)
	restful.SetCompressorProvider(ledger)
	ct := restful.NewContainer()
	ct.EnableContentEncoding(true)
	ws := new(restful.WebService)
	ws.Path("/")
	ws.Route(ws.GET("/w/{id}").To(func(req *restful.Request, resp *restful.Response) {
		id := req.PathParameter("id")
		n, _ := strconv.Atoi(id)
		resp.Write([]byte("payload-of-" + id + ":"))
		runtime.Gosched()
		resp.Write(payload(1000+(n%97)*37, n))
	}))
	ws.Route(ws.POST("/r/{id}").To(func(req *restful.Request, resp *restful.Response) {
		var v map[string]interface{}
		err := req.ReadEntity(&v)
		if err != nil || fmt.Sprint(v["id"]) != req.PathParameter("id") {
			resp.WriteErrorString(500, fmt.Sprintf("read back id=%v err=%v", v["id"], err))
			return
		}
		resp.WriteHeader(204)
	}))
	ct.Add(ws)
	var mu sync.Mutex
	addV := func(v *Violation) {
		mu.Lock()
		if len(vs) < 10 {
			vs = append(vs, v)
		}
		mu.Unlock()
	}
	var wg sync.WaitGroup
	done := make(chan struct{})
	for g := 0; g < c.N; g++ {
		wg.Add(1)
		go func(g int) {
			defer wg.Done()
			for r := 0; r < c.Rounds; r++ {
				id := g*1000 + r
				enc := []string{"gzip", "deflate"}[(g+r)%2]
				w := httptest.NewRecorder()
				if c.Reads && g%2 == 1 {
					doc := []byte(`{"id":` + strconv.Itoa(id) + `,"pad":"` + string(payload(500+g*11, g)) + `"}`)
					// every request spells its Content-Type differently (parameters are legal and must not matter)
					ctype := "application/json"
					if r%2 == 1 {
						ctype = "application/json; charset=utf-8; v=" + strconv.Itoa(id)
					}
					q := model.ReqSpec{Method: "POST", Path: "/r/" + strconv.Itoa(id), Body: string(compressBody("gzip", doc, 1)), Headers: []model.H{{K: "Content-Type", V: ctype}, {K: "Content-Encoding", V: "gzip"}}}
					ct.ServeHTTP(w, harness.NewHTTPRequest(q, "c"))
					if w.Code != 204 {
						body, _ := decodeBody(w.Header().Get("Content-Encoding"), w.Body.Bytes())
						addV(viol("", "worker %d round %d: concurrent gzip request body was not decoded to its own document: status %d %s", g, r, w.Code, body))
					}
					continue
				}
				q := model.ReqSpec{Method: "GET", Path: "/w/" + strconv.Itoa(id), Headers: []model.H{{K: "Accept-Encoding", V: enc}}}
				ct.ServeHTTP(w, harness.NewHTTPRequest(q, "c"))
				got, err := decodeBody(w.Header().Get("Content-Encoding"), w.Body.Bytes())
				want := append([]byte("payload-of-"+strconv.Itoa(id)+":"), payload(1000+(id%97)*37, id)...)
				if err != nil || !bytes.Equal(got, want) {
					addV(viol("", "worker %d round %d (%s): the response does not decode to its own payload: err=%v, got %d bytes starting %q", g, r, enc, err, len(got), truncate(got, 40)))
				}
			}
		}(g)
	}
	go func() { wg.Wait(); close(done) }()
	select {
	case <-done:
	case <-time.After(90 * time.Second):
		buf := make([]byte, 1<<20)
		buf = buf[:runtime.Stack(buf, true)]
		if blockedInProvider(string(buf)) {
			addV(viol("", "workers are parked in a channel operation inside the provider's Acquire*/Release*: acquiring or releasing a compressor blocks (N=%d, capacity=%d)", c.N, c.Capacity))
		} else {
			inconclusive("C13", "TestC13Conc", "workers did not finish within 90s and no goroutine is parked in Release*")
		}
		// free parked senders so that no worker outlives the case
		for i := 0; i < 4*c.N+8; i++ {
			inner.AcquireGzipWriter()
			inner.AcquireZlibWriter()
			inner.AcquireGzipReader()
			select {
			case <-done:
				return vs
			default:
			}
		}
		select {
		case <-done:
		case <-time.After(20 * time.Second):
		}
		return vs
	}
	if h := ledger.Held(); h != 0 {
		addV(viol("", "%d objects are still held after all requests finished", h))
	}
	for _, p := range ledger.Problems() {
		addV(viol("", "%s", p))
	}
	st.Case(c, c.N > c.Capacity || c.Reads, "provider_"+c.Provider, "n_"+strconv.Itoa(c.N))
	return vs
}

// blockedInProvider: a goroutine parked in a channel operation inside Acquire* or Release*.
func blockedInProvider(dump string) bool {
	for _, g := range strings.Split(dump, "\n\n") {
		if (strings.Contains(g, "chan send") || strings.Contains(g, "chan receive")) && strings.Contains(g, "BoundedCachedCompressors") {
			return true
		}
	}
	return false
}

func blockedInRelease(dump string) bool {
	for _, g := range strings.Split(dump, "\n\n") {
		if strings.Contains(g, "chan send") && (strings.Contains(g, "ReleaseGzipWriter") || strings.Contains(g, "ReleaseZlibWriter") || strings.Contains(g, "ReleaseGzipReader")) {
			return true
		}
	}
	return false
}

func TestC13Conc(t *testing.T) {
	rapid.Check(t, func(t *rapid.T) {
		harness.ResetGlobals()
		c := genC13Conc(t)
		saveRunning("C13", "TestC13Conc", c)
		report(t, "C13", "TestC13Conc", c, checkC13Conc(c))
	})
}

// ---------------------------------------------------------------------------------------
// (c) releasing never blocks: G concurrent releases meet exactly one free slot

// C13ReleaseCase: rounds of barrier-synchronised releases on a bounded cache.
type C13ReleaseCase struct {
	Capacity int    `json:"capacity"`
	G        int    `json:"g"`
	Free     int    `json:"free"` // free slots when the releases start
	Kind     string `json:"kind"` // gzipw, zlibw, gzipr
	Rounds   int    `json:"rounds"`
	// Mode "acquire": G goroutines acquire at the same moment from a cache that holds Free objects
	// (Free is then the number of cached objects, not of free slots); default: simultaneous releases
	Mode string `json:"mode,omitempty"`
	// Readers: capacity of the reader cache when it differs from Capacity (the constructor takes
	// the two separately); -1 = same as Capacity
	Readers int `json:"readers"`
}

func genC13Release(t *rapid.T) C13ReleaseCase {
	c := C13ReleaseCase{Capacity: rapid.IntRange(1, 8).Draw(t, "capacity")}
	c.G = rapid.SampledFrom([]int{2, 2, 3, 4, 8, 16}).Draw(t, "g")
	c.Free = rapid.IntRange(0, min(c.Capacity, 2)).Draw(t, "free")
	c.Kind = rapid.SampledFrom([]string{"gzipw", "zlibw", "gzipr"}).Draw(t, "kind")
	c.Rounds = rapid.IntRange(50, 400).Draw(t, "rounds")
	if rapid.IntRange(0, 2).Draw(t, "mode") == 0 {
		c.Mode = "acquire"
	}
	c.Readers = -1
	if rapid.Bool().Draw(t, "asymmetric") {
		c.Readers = rapid.IntRange(0, 8).Draw(t, "readers")
	}
	return c
}

func checkC13Release(c C13ReleaseCase) (vs []*Violation) {
	st := stats.For("C13", "TestC13Release")
	defer harness.ResetGlobals()
	wcap, rcap := c.Capacity, c.Capacity
	if c.Readers >= 0 {
		// writer and reader caches of different size; the burst works on the kind under test
		if c.Kind == "gzipr" {
			wcap = c.Readers
		} else {
			rcap = c.Readers
		}
	}
	var b *restful.BoundedCachedCompressors
	built := make(chan struct{})
	go func() { b = restful.NewBoundedCachedCompressors(wcap, rcap); close(built) }()
	select {
	case <-built:
	case <-time.After(20 * time.Second):
		buf := make([]byte, 1<<20)
		buf = buf[:runtime.Stack(buf, true)]
		if strings.Contains(string(buf), "NewBoundedCachedCompressors") && strings.Contains(string(buf), "chan send") {
			st.Case(c, true, "kind_"+c.Kind, "constructor_blocked")
			return []*Violation{viol("", "NewBoundedCachedCompressors(%d, %d) does not return: a goroutine is parked in a channel send inside the constructor", wcap, rcap)}
		}
		inconclusive("C13", "TestC13Release", "NewBoundedCachedCompressors did not return within 20s")
		return nil
	}
	acquire := func() interface{} {
		switch c.Kind {
		case "gzipw":
			return b.AcquireGzipWriter()
		case "zlibw":
			return b.AcquireZlibWriter()
		}
		return b.AcquireGzipReader()
	}
	release := func(o interface{}) {
		switch c.Kind {
		case "gzipw":
			b.ReleaseGzipWriter(o.(*gzip.Writer))
		case "zlibw":
			b.ReleaseZlibWriter(o.(*zlib.Writer))
		default:
			b.ReleaseGzipReader(o.(*gzip.Reader))
		}
	}
	contended := 0
	if c.Mode == "acquire" {
		for r := 0; r < c.Rounds; r++ {
			// leave exactly Free objects in the cache, then acquire G at the same moment
			var held []interface{}
			for i := 0; i < c.Capacity; i++ {
				held = append(held, acquire())
			}
			for i := 0; i < c.Free && i < len(held); i++ {
				release(held[i])
			}
			var start, wg sync.WaitGroup
			start.Add(1)
			done := make(chan struct{})
			got := make([]interface{}, c.G)
			for g := 0; g < c.G; g++ {
				wg.Add(1)
				go func(g int) {
					defer wg.Done()
					start.Wait()
					got[g] = acquire()
				}(g)
			}
			start.Done()
			go func() { wg.Wait(); close(done) }()
			if c.G > c.Free {
				contended++
			}
			select {
			case <-done:
			case <-time.After(20 * time.Second):
				buf := make([]byte, 1<<20)
				buf = buf[:runtime.Stack(buf, true)]
				if blockedInProvider(string(buf)) {
					vs = append(vs, viol("", "round %d: %d goroutines acquired a %s at the same moment from a cache of capacity %d holding %d objects; at least one is parked in the channel receive inside Acquire*", r, c.G, c.Kind, c.Capacity, c.Free))
				} else {
					inconclusive("C13", "TestC13Release", "concurrent acquires did not return within 20s and no goroutine is parked in Acquire*")
				}
				for i := 0; i < c.G; i++ { // unblock the stuck goroutines
					switch c.Kind {
					case "gzipw":
						b.ReleaseGzipWriter(restful.NewSyncPoolCompessors().AcquireGzipWriter())
					case "zlibw":
						b.ReleaseZlibWriter(restful.NewSyncPoolCompessors().AcquireZlibWriter())
					default:
						b.ReleaseGzipReader(new(gzip.Reader))
					}
				}
				<-done
				st.Case(c, true, "kind_"+c.Kind, "mode_acquire", "blocked")
				return vs
			}
			// exclusivity: no object handed out twice
			seen := map[interface{}]bool{}
			for _, o := range got {
				if seen[o] {
					vs = append(vs, viol("", "round %d: the same %s was handed out to two simultaneous acquirers", r, c.Kind))
				}
				seen[o] = true
			}
			for _, o := range got {
				release(o)
			}
			if len(vs) > 0 {
				break
			}
		}
		st.Label("acquire_rounds", int64(c.Rounds))
		st.Case(c, c.G > c.Free, "kind_"+c.Kind, "mode_acquire")
		return vs
	}
	for r := 0; r < c.Rounds; r++ {
		// drain the cache completely, then give back all but Free objects
		var objs []interface{}
		for i := 0; i < c.Capacity+c.G; i++ {
			objs = append(objs, acquire())
		}
		for i := 0; i < c.Capacity-c.Free; i++ {
			release(objs[0])
			objs = objs[1:]
		}
		// now exactly Free slots are free; release G objects at the same moment
		var start, wg sync.WaitGroup
		start.Add(1)
		done := make(chan struct{})
		for g := 0; g < c.G; g++ {
			wg.Add(1)
			o := objs[g]
			go func() {
				defer wg.Done()
				start.Wait()
				release(o)
			}()
		}
		start.Done()
		go func() { wg.Wait(); close(done) }()
		if c.G > c.Free {
			contended++
		}
		select {
		case <-done:
		case <-time.After(20 * time.Second):
			buf := make([]byte, 1<<20)
			buf = buf[:runtime.Stack(buf, true)]
			if blockedInRelease(string(buf)) {
				vs = append(vs, viol("", "round %d: %d goroutines released a %s at the same moment into a cache of capacity %d with %d free slots; at least one is parked in the channel send inside Release*", r, c.G, c.Kind, c.Capacity, c.Free))
			} else {
				inconclusive("C13", "TestC13Release", "concurrent releases did not return within 20s and no goroutine is parked in Release*")
			}
			// unblock the stuck goroutines so that they do not outlive the case
			for i := 0; i < c.G; i++ {
				acquire()
			}
			<-done
			st.Case(c, true, "kind_"+c.Kind, "blocked")
			return vs
		}
	}
	st.Label("release_rounds", int64(c.Rounds))
	st.Label("rounds_with_more_releases_than_free_slots", int64(contended))
	st.Case(c, c.G > c.Free, "kind_"+c.Kind)
	return vs
}

func TestC13Release(t *testing.T) {
	rapid.Check(t, func(t *rapid.T) {
		c := genC13Release(t)
		report(t, "C13", "TestC13Release", c, checkC13Release(c))
	})
}

var _ = errors.New
