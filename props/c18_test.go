package props

import (
	"net/http"
	"strconv"
	"strings"
	"testing"

	"pgregory.net/rapid"

	"verif/internal/gen"
	"verif/internal/harness"
	"verif/internal/model"
	"verif/internal/stats"
)

func newMux() *http.ServeMux { return http.NewServeMux() }

// C18 – CurlyRouter and RouterJSR311 agree wherever both are specified (differential).

func init() { registerPart("C18", "TestC18", jsonReplay(checkC18)) }

func genC18(t *rapid.T) RoutingCase {
	cfg := gen.Common()
	if thorough() {
		cfg.MaxServices, cfg.MaxRoutes = 6, 12
	}
	c := RoutingCase{Via: harness.ViaDispatch}
	c.Table = gen.Table(t, cfg)
	c.Reqs = genRequests(t, c.Table, cfg, 1, 12)
	if rapid.Bool().Draw(t, "viaServe") { // roots may share their fixed prefix: the container registers each mux pattern once
		c.Via = harness.ViaServe
	}
	return c
}

// d13 is the signature of known finding D13: both routers ran a route function of the same
// service, the two routes differ, the reference model admits either of them for this request
// their templates have different literal/variable skeletons and neither strictly refines
// the other (the statement does not rank them).
func d13(c RoutingCase, req model.ReqSpec, a, b harness.Outcome) bool {
	if a.Route() == "" || b.Route() == "" || a.Route() == b.Route() {
		return false
	}
	sa, ra, ok1 := c.Table.FindRoute(a.Route())
	sb, rb, ok2 := c.Table.FindRoute(b.Route())
	if !ok1 || !ok2 || sa.Root.String() != sb.Root.String() {
		return false
	}
	for _, router := range []string{model.Curly, model.JSR311} {
		v := model.Decide(c.Table, req, router)
		if v.Unspecified || !v.Admits(model.Observed{Status: 200, Route: ra.ID}) || !v.Admits(model.Observed{Status: 200, Route: rb.ID}) {
			return false
		}
	}
	fa, fb := sa.Full(ra), sb.Full(rb)
	if fa.Shape() == fb.Shape() {
		return false // same literal/variable skeleton: both routers rank these alike (by path string, then registration order)
	}
	if model.RouteRefines(fa, fb) || model.RouteRefines(fb, fa) {
		return false
	}
	// The finding is that the two routers rank by different keys, each by the ones it documents:
	// CurlyRouter by the number of literal segments of the full path, then the number of
	// variables, then the path string; RouterJSR311 (JSR 311, 3.7.2) by the number of literal
	// characters of the route path, then the number of variables, then the path string. A
	// disagreement those keys do not produce is something else.
	return rankKeyLess(curlyKey(sb, rb), curlyKey(sa, ra)) && rankKeyLess(jsrKey(ra), jsrKey(rb))
}

type rankKey struct {
	a, b int
	path string
}

func rankKeyLess(x, y rankKey) bool {
	if x.a != y.a {
		return x.a < y.a
	}
	if x.b != y.b {
		return x.b < y.b
	}
	return x.path < y.path
}

// relPathAsWritten is the route path as the builder got it, without leading slashes (two routes
// of one WebService share everything in front of it).
func relPathAsWritten(r model.RouteSpec) string {
	return strings.TrimLeft(harness.RoutePathForm(r.Path, r.PathForm), "/")
}

func curlyKey(s model.ServiceSpec, r model.RouteSpec) rankKey {
	k := rankKey{path: relPathAsWritten(r)}
	for _, sg := range s.Full(r) {
		if sg.IsVar() {
			k.b++
		} else {
			k.a++
		}
	}
	return k
}

func jsrKey(r model.RouteSpec) rankKey {
	k := rankKey{path: relPathAsWritten(r)}
	for _, sg := range r.Path {
		if sg.IsVar() {
			k.b++
		} else {
			k.a += len(sg.Lit)
		}
	}
	return k
}

func checkC18(c RoutingCase) (vs []*Violation) {
	st := stats.For("C18", "TestC18")
	recA, recB := harness.NewRecorder(), harness.NewRecorder()
	fresh := c.Via != harness.ViaServe
	ca, pa := buildWith(c.Table, &harness.Options{Router: model.Curly}, recA, fresh)
	cb, pb := buildWith(c.Table, &harness.Options{Router: model.JSR311}, recB, fresh)
	if pa != nil || pb != nil {
		return []*Violation{viol("", "building the table panicked: curly=%v jsr311=%v", pa, pb)}
	}
	nontrivial := false
	var labels []string
	for i, req := range c.Reqs {
		if c.Via != harness.ViaServe && !model.CleanPath(req.Path) {
			labels = append(labels, "skipped_unclean_path")
			continue
		}
		id := strconv.Itoa(i)
		oa := harness.Do(ca, recA, req, c.Via, id)
		ob := harness.Do(cb, recB, req, c.Via, id)
		labels = append(labels, "outcome_"+outcomeClass(oa))
		v := model.Decide(c.Table, req, model.Curly)
		if v.PathCandidates >= 2 || (len(oa.Ran) == 0 && oa.Status != 404) {
			nontrivial = true
		}
		if v.PathCandidates >= 2 {
			labels = append(labels, "req_with_2plus_path_candidates")
		}
		if oa.Key() != ob.Key() {
			if d13(c, req, oa, ob) {
				vs = append(vs, viol("D13", "routers rank incomparable eligible routes differently: %s %s: curly ran %s, jsr311 ran %s", req.Method, req.Path, oa.Route(), ob.Route()))
				continue
			}
			vs = append(vs, viol("", "routers disagree on %s %s (via %s): curly{%s} jsr311{%s}", req.Method, req.Path, c.Via, oa.Key(), ob.Key()))
		}
	}
	labels = append(labels, "via_"+c.Via)
	st.Case(c, nontrivial, labels...)
	return vs
}

func TestC18(t *testing.T) {
	rapid.Check(t, func(t *rapid.T) {
		harness.ResetGlobals()
		c := genC18(t)
		report(t, "C18", "TestC18", c, checkC18(c))
	})
}
