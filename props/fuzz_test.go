package props

import (
	"bytes"
	"fmt"
	"net/http/httptest"
	"os"
	"strconv"
	"strings"
	"testing"
	"unicode/utf8"

	restful "github.com/emicklei/go-restful/v3"

	"verif/internal/harness"
	"verif/internal/model"
	"verif/internal/stats"
)

// Native fuzz targets (thorough tier only). Each decodes the fuzzer's bytes into the same
// case structs the rapid properties use and calls the same oracle, so a crasher converts
// into an ordinary replay file. State is reset at the top of every iteration.

// ---------------------------------------------------------------------------------------
// curated route tables: together they contain every segment kind and overlap pattern

type curatedRoute struct{ method, path string }

func curated(router string, svcs map[string][]curatedRoute, order []string) model.TableSpec {
	var tb model.TableSpec
	n := 0
	for si, root := range order {
		s := model.ServiceSpec{Root: model.ParseTemplate(root)}
		for _, r := range svcs[root] {
			rs := model.RouteSpec{ID: "s" + strconv.Itoa(si) + "r" + strconv.Itoa(n), Method: r.method, Path: model.ParseTemplate(r.path)}
			n++
			switch n % 5 {
			case 1:
				rs.Consumes = []string{"application/json"}
			case 2:
				rs.Produces = []string{"application/json", "application/xml"}
			case 3:
				rs.Consumes, rs.Produces = []string{"application/xml", "application/json"}, []string{"application/xml"}
			}
			s.Routes = append(s.Routes, rs)
		}
		tb.Services = append(tb.Services, s)
	}
	_ = router
	return tb
}

var curatedTables = []struct {
	router string
	table  model.TableSpec
}{
	{model.Curly, curated(model.Curly, map[string][]curatedRoute{
		"/":                   {{"GET", "/"}, {"GET", "/{id}"}, {"POST", "/{id}"}, {"GET", "/static/{rest:*}"}, {"GET", "/x/{v}.foo"}, {"GET", "/x/p_{v}"}, {"GET", "/x/index.foo"}},
		"/users":              {{"GET", ""}, {"GET", "/{id:[0-9]+}"}, {"PUT", "/{id:[0-9]+}"}, {"GET", "/{name:[a-z]+}"}, {"POST", "/{id}:run"}, {"POST", "/{id}:stop"}, {"GET", "/{id}/friends/{fid}"}},
		"/users/{uid}/orders": {{"GET", "/{oid}"}, {"DELETE", "/{oid}"}, {"GET", "/latest"}},
	}, []string{"/", "/users", "/users/{uid}/orders"})},
	{model.Curly, curated(model.Curly, map[string][]curatedRoute{
		"/{tenant:[a-z]+}": {{"GET", "/items/{id}"}, {"GET", "/items/special"}, {"PATCH", "/items/{id}"}},
		"/{num:[0-9]+}":    {{"GET", "/items/{id}"}, {"GET", "/{t:*}"}},
		"/api/v1":          {{"GET", "/a/{b}/c"}, {"GET", "/a/b/{c}"}, {"GET", "/{a}/b/c"}, {"HEAD", "/a/b/c"}, {"GET", "/foo_{v}_bar"}},
	}, []string{"/{tenant:[a-z]+}", "/{num:[0-9]+}", "/api/v1"})},
	{model.JSR311, curated(model.JSR311, map[string][]curatedRoute{
		"/":          {{"GET", "/"}, {"GET", "/{id}"}, {"POST", "/{id}"}, {"GET", "/static/{rest:*}"}},
		"/users":     {{"GET", ""}, {"GET", "/{id:[0-9]+}"}, {"PUT", "/{id:[0-9]+}"}, {"GET", "/{id}/friends/{fid}"}, {"GET", "/{id}/friends/best"}},
		"/users/vip": {{"GET", "/{id}"}, {"DELETE", "/{id}"}},
	}, []string{"/", "/users", "/users/vip"})},
	{model.JSR311, curated(model.JSR311, map[string][]curatedRoute{
		"/api/v1": {{"GET", "/a/{b}/c"}, {"GET", "/a/b/{c}"}, {"GET", "/{a}/b/c"}, {"HEAD", "/a/b/c"}, {"GET", "/d/{x:[A-Z][A-Z]}"}},
		"/api":    {{"GET", "/{v}/a/b/c"}, {"OPTIONS", "/{v}"}},
	}, []string{"/api/v1", "/api"})},
}

func fuzzLabel(property, target, label string) {
	stats.For(property, target).Case(nil, false, label)
}

func fuzzFail(t *testing.T, property, target string, c interface{}, vs []*Violation) {
	for _, v := range vs {
		if v == nil || openFinding(v.Sig) {
			continue
		}
		saveFound(property, target, c, v)
		t.Fatalf("%s: %s", property, v.Msg)
	}
}

func FuzzC02Path(f *testing.F) {
	for _, seed := range [][]string{
		{"GET", "/users/42", "", ""}, {"POST", "/users/7:run", "application/json", "*/*"}, {"GET", "", "", ""}, {"GET", "//", "", ""},
		{"GET", "/:", "", ""}, {"GET", "/{", "", ""}, {"GET", "/a/b", "", "application/xml"}, {"PUT", "/users/1", "text/plain", "text/html"},
		{"GET", "/x/ab.foo", "", ""}, {"GET", "/x/.foo", "", ""}, {"GET", "/x/foo_bar", "", ""}, {"GET", "/static/a/b/c/", "", ""},
		{"GET", "/users/abc/orders/9", "", "application/json;q=0.5, */*;q=0.1"}, {"GET", "/api/v1/a/b/c", "", ""}, {"GET", "/é/\U0001F600", "", ""},
		{"GET", "/" + strings.Repeat("a", 70000), "", ""}, {"GET", strings.Repeat("/a", 3000), "", ""}, {"DELETE", "/abc/items/special", "", ""},
	} {
		for tbl := 0; tbl < len(curatedTables); tbl++ {
			f.Add(seed[0], seed[1], seed[2], seed[3], uint8(tbl), false)
		}
	}
	f.Fuzz(func(t *testing.T, method, path, contentType, accept string, table uint8, body bool) {
		harness.ResetGlobals()
		ct := curatedTables[int(table)%len(curatedTables)]
		req := model.ReqSpec{Method: method, Path: path}
		if contentType != "" {
			req.Headers = append(req.Headers, model.H{K: "Content-Type", V: contentType})
		}
		if accept != "" {
			req.Headers = append(req.Headers, model.H{K: "Accept", V: accept})
		}
		if body {
			req.Body = "{}"
		}
		c := RoutingCase{Router: ct.router, Table: ct.table, Reqs: []model.ReqSpec{req}}
		fuzzFail(t, "C02", "TestC02", c, checkC02(c))
		fuzzFail(t, "C01", "TestC01", c, checkC01(c))
	})
}

// ---------------------------------------------------------------------------------------

// parseAcceptStrict reads a header that lies inside the grammar of C05 (SP-only optional
// whitespace, q in 0.001..1 with at most three decimals, no empty elements); ok=false otherwise.
func parseAcceptStrict(h string) (rs []AccRange, ok bool) {
	if h == "" {
		return nil, true
	}
	for _, el := range strings.Split(h, ",") {
		parts := strings.Split(el, ";")
		media := strings.Trim(parts[0], " ")
		if media == "" || strings.ContainsAny(media, " \t\r\n") || !strings.Contains(media, "/") {
			return nil, false
		}
		if strings.HasSuffix(media, "/*") && media != "*/*" {
			return nil, false // partial wildcards are outside the grammar
		}
		r := AccRange{Media: media}
		seenQ := false
		for _, p := range parts[1:] {
			kv := strings.SplitN(p, "=", 2)
			if len(kv) != 2 {
				return nil, false
			}
			k, v := strings.Trim(kv[0], " "), strings.Trim(kv[1], " ")
			if k == "" || strings.ContainsAny(k+v, " \t\r\n\"") {
				return nil, false
			}
			if k == "q" || k == "Q" {
				if seenQ || k == "Q" {
					return nil, false
				}
				f, err := strconv.ParseFloat(v, 64)
				if err != nil || f < 0.001 || f > 1 || len(v) > 5 || strings.ContainsAny(v, "eE+-xX_") {
					return nil, false
				}
				r.Q, seenQ = v, true
			}
		}
		rs = append(rs, r)
	}
	return rs, true
}

func FuzzC05Accept(f *testing.F) {
	for _, s := range []string{"", "*/*", "application/json", "application/xml;q=0.9, application/json", "*/* ; q=0.8, application/json;q=0.1",
		"application/xml;level=1;q=0.50,*/*;q=0.9", "text/html, application/xhtml+xml, application/xml;q=0.9, */*;q=0.8", "a/b;q=x", ",,,", "application/json;q=0",
		" application/json ,application/xml ; q = 0.4", strings.Repeat("application/json;q=0.9, ", 14) + "application/xml;q=0.9"} {
		for p := 0; p < 6; p++ {
			f.Add(s, uint8(p))
		}
	}
	producesSets := [][]string{{restful.MIME_JSON}, {restful.MIME_XML}, {restful.MIME_JSON, restful.MIME_XML}, {restful.MIME_XML, restful.MIME_JSON}, {"text/csv", restful.MIME_JSON}, {restful.MIME_XML, "text/csv", restful.MIME_JSON}}
	f.Fuzz(func(t *testing.T, accept string, produces uint8) {
		harness.ResetGlobals()
		setupRegistry()
		if !utf8.ValidString(accept) || strings.ContainsAny(accept, "\r\n\x00") {
			return
		}
		ps := producesSets[int(produces)%len(producesSets)]
		rs, inGrammar := parseAcceptStrict(accept)
		if inGrammar && len(rs) > 0 {
			c := C05Case{Registry: "a", Produces: ps, Accept: rs, Via: harness.ViaDispatch}
			if reg := os.Getenv("VERIF_REGISTRY"); reg != "" {
				c.Registry = reg
			}
			// the structured form is rendered without optional whitespace; the raw form is checked below
			fuzzFail(t, "C05", "TestC05", c, checkC05(c))
		}
		// raw header: totality, and where the reference model is definite, the exact answer
		ct := restful.NewContainer()
		ws := new(restful.WebService)
		ws.Path("/")
		ws.Route(ws.GET("/x").Produces(ps...).To(func(req *restful.Request, resp *restful.Response) {
			resp.WriteEntity(c05Entity{A: 1, B: "b"})
		}))
		ct.Add(ws)
		rec := harness.NewRecorder()
		req := model.ReqSpec{Method: "GET", Path: "/x"}
		if accept != "" {
			req.Headers = []model.H{{K: "Accept", V: accept}}
		}
		o := harness.Do(ct, rec, req, harness.ViaDispatch, "f")
		if o.Panic != "" {
			t.Fatalf("C05: Accept %q: panic %s", accept, o.Panic)
		}
		isReg := map[string]bool{restful.MIME_JSON: true, restful.MIME_XML: true}
		if inGrammar {
			want, admitted, decided := expectedType(ps, rs, isReg)
			got := strings.Join(o.Header["Content-Type"], "|")
			if admitted && decided && (o.Status != 200 || got != want) {
				c := C05Case{Registry: "a", Produces: ps, Accept: rs, Via: harness.ViaDispatch}
				saveFound("C05", "TestC05", c, viol("", "raw header %q", accept))
				t.Fatalf("C05: Produces=%v Accept=%q: status %d Content-Type %q, the reference ranking says %q", ps, accept, o.Status, got, want)
			}
			if !admitted && o.Status != 406 {
				t.Fatalf("C05/C02: Produces=%v Accept=%q admits no produced type, status is %d", ps, accept, o.Status)
			}
		}
		fuzzLabel("C05", "FuzzC05Accept", "iterations")
	})
}

// ---------------------------------------------------------------------------------------

var fuzzCORSSpecs = []CORSSpec{
	{Domains: []string{"http://a.com"}},
	{Domains: []string{"http://a.com", "https://b.org"}, Cookies: true},
	{Domains: []string{"http://a.com", ".*"}},
	{Domains: []string{"http://a.com"}, HasFunc: true, FuncSet: []string{"http://sub.a.com"}, Cookies: true, MaxAge: 10},
	{HasFunc: true, FuncSet: []string{"https://example.com"}},
	{},
	{Domains: []string{"http://localhost:3000"}, Methods: []string{"GET"}, Headers: []string{"X-Custom"}, Expose: []string{"ETag"}},
	{Domains: []string{"HTTP://A.COM"}},
}

func FuzzC08Origin(f *testing.F) {
	for _, o := range []string{"http://a.com", "HTTP://A.COM", "http://a.com.evil.io", "evil-http://a.com", "http://a.co", "null", "", "http://a.com/", "http://a.com:8080", "https://a.com", " http://a.com", "http://a.com ", "http://sub.a.com", "http://a.com\t"} {
		for c := range fuzzCORSSpecs {
			f.Add(o, uint8(c), false)
			f.Add(o, uint8(c), true)
		}
	}
	tb := curatedTables[0].table
	f.Fuzz(func(t *testing.T, origin string, cfg uint8, preflight bool) {
		harness.ResetGlobals()
		if !asciiOnly(origin) {
			return // case folding of non-ASCII origins is not pinned down by the statement
		}
		c := CORSCase{Router: model.Curly, Spec: fuzzCORSSpecs[int(cfg)%len(fuzzCORSSpecs)], Table: tb}
		r := CORSReq{Method: "GET", Path: "/users/42", HasOrigin: true, Origin: origin}
		if preflight {
			r.Method, r.ACRM = "OPTIONS", "GET"
		}
		c.Reqs = []CORSReq{r, {Method: "PUT", Path: "/users/42", HasOrigin: true, Origin: origin}}
		fuzzFail(t, "C08", "TestC08", c, checkCORS(c, "C08"))
	})
}

// ---------------------------------------------------------------------------------------

func FuzzC16Body(f *testing.F) {
	good := compressBody("gzip", []byte(`{"i64":1}`), 1)
	for _, b := range [][]byte{good, good[:5], good[:len(good)-4], []byte("{}"), []byte(`{"i64":9007199254740993}`), nil, []byte("\x1f\x8b"), []byte("\x1f\x8b\x08\x00\x00\x00\x00\x00\x00\xff"), compressBody("deflate", []byte(`<E><i64>3</i64></E>`), 1), bytes.Repeat([]byte{0}, 64)} {
		for enc := 0; enc < 3; enc++ {
			for ct := 0; ct < 3; ct++ {
				f.Add(b, uint8(enc), uint8(ct))
			}
		}
	}
	f.Fuzz(func(t *testing.T, body []byte, enc, ctype uint8) {
		harness.ResetGlobals()
		ledger := harness.NewLedger(harness.ProviderFor([]string{"pool", "bounded1", "bounded0"}[int(enc/3)%3]))
		restful.SetCompressorProvider(ledger)
		defer harness.ResetGlobals()
		ct := restful.NewContainer()
		ws := new(restful.WebService)
		ws.Path("/")
		var readErr error
		var j entityJ
		var x entityX
		asXML := ctype%3 == 1
		ws.Route(ws.POST("/e").To(func(req *restful.Request, resp *restful.Response) {
			j, x = entityJ{}, entityX{}
			if asXML {
				readErr = req.ReadEntity(&x)
			} else {
				readErr = req.ReadEntity(&j)
			}
			resp.WriteHeader(204)
		}))
		ct.Add(ws)
		send := func(b []byte, encoding string) string {
			q := model.ReqSpec{Method: "POST", Path: "/e", Body: string(b)}
			mime := restful.MIME_JSON
			if asXML {
				mime = restful.MIME_XML
			}
			if ctype%3 != 2 {
				q.Headers = append(q.Headers, model.H{K: "Content-Type", V: mime})
			}
			if encoding != "" {
				q.Headers = append(q.Headers, model.H{K: "Content-Encoding", V: encoding})
			}
			hr := harness.NewHTTPRequest(q, "f")
			w := httptest.NewRecorder()
			pan := ""
			func() {
				defer func() {
					if p := recover(); p != nil {
						pan = fmt.Sprint(p)
					}
				}()
				ct.Dispatch(w, hr)
			}()
			return pan
		}
		encoding := []string{"", "gzip", "deflate"}[int(enc)%3]
		if len(body) == 0 {
			return
		}
		if pan := send(body, encoding); pan != "" {
			t.Fatalf("C16: ReadEntity panicked on a %d-byte body declared %q: %s", len(body), encoding, pan)
		}
		// whatever that was, the next well-formed compressed body must read back
		var doc []byte
		if asXML {
			doc = []byte(`<E><i64>-42</i64><s>after</s></E>`)
		} else {
			doc = []byte(`{"i64":-42,"s":"after"}`)
		}
		if ctype%3 == 2 {
			return // no Content-Type and no default: reading is refused, nothing to compare
		}
		if pan := send(compressBody("gzip", doc, 2), "gzip"); pan != "" {
			t.Fatalf("C16: panic on the follow-up body: %s", pan)
		}
		if readErr != nil || (asXML && (x.I64 != -42 || x.S != "after")) || (!asXML && (j.I64 != -42 || j.S != "after")) {
			t.Fatalf("C16: after a %d-byte body declared %q, a well-formed gzip body does not read back: err=%v", len(body), encoding, readErr)
		}
		if h := ledger.Held(); h != 0 {
			t.Fatalf("C16: %d pooled objects still held", h)
		}
		if p := ledger.Problems(); len(p) > 0 {
			t.Fatalf("C16: %v", p)
		}
	})
}
