package props

import (
	"bytes"
	"compress/gzip"
	"compress/zlib"
	"fmt"
	"io"
	"net/http"
	"net/http/httptest"
	"runtime"
	"strconv"
	"strings"
	"testing"
	"time"

	restful "github.com/emicklei/go-restful/v3"
	"pgregory.net/rapid"

	"verif/internal/harness"
	"verif/internal/model"
	"verif/internal/stats"
)

// C10 – a panic anywhere in the chain becomes one 500 and leaves the container usable.
// Fault enumeration: for every generated chain, every panic position is exercised.

func init() { registerPart("C10", "TestC10", jsonReplay(checkC10)) }

type c10Filter struct {
	ID     string `json:"id"`
	Writes int    `json:"writes,omitempty"` // bytes written before passing control on
}

// C10Case is a chain configuration; the panic positions are enumerated by the check.
type C10Case struct {
	Container []c10Filter `json:"container,omitempty"`
	Service   []c10Filter `json:"service,omitempty"`
	Route     []c10Filter `json:"route,omitempty"`
	Chunks    []int       `json:"chunks,omitempty"` // handler writes
	Recovery  string      `json:"recovery"`         // default, custom, off
	Encoding  string      `json:"encoding,omitempty"`
	RouteEnc  bool        `json:"route_enc,omitempty"` // encoding enabled on the route instead of the container
	Provider  string      `json:"provider"`
	Via       string      `json:"via"`
	Router    string      `json:"router"`
	Tail      []string    `json:"tail,omitempty"` // further requests on the same container: "" normal, else a position
	OnlyPos   string      `json:"only_pos,omitempty"`
	// Defaults: instead of a generated chain, the documented default is checked on untouched
	// containers - a new one and the package-level DefaultContainer as init() built it: recovery
	// is off, a panic reaches the caller unchanged
	Defaults bool `json:"defaults,omitempty"`
	// NilErr: the panic value is an error interface around a nil pointer whose Error method
	// dereferences it (the typed-nil slip); a value like any other to whoever passes it on
	NilErr bool `json:"nil_err,omitempty"`
}

type panicToken struct{ pos string }

type nilErr struct{ msg string }

func (e *nilErr) Error() string { return e.msg }

// isPanicValue tells whether v is the value the generated panic raised at pos.
func isPanicValue(c C10Case, v interface{}, pos string) bool {
	if c.NilErr {
		ne, ok := v.(*nilErr)
		return ok && ne == nil
	}
	tok, ok := v.(*panicToken)
	return ok && tok.pos == pos
}

func genC10Filters(t *rapid.T, prefix string) []c10Filter {
	n := rapid.IntRange(0, 2).Draw(t, prefix+"n")
	var fs []c10Filter
	for i := 0; i < n; i++ {
		fs = append(fs, c10Filter{ID: prefix + strconv.Itoa(i), Writes: rapid.SampledFrom([]int{0, 0, 3, 200}).Draw(t, prefix+"writes")})
	}
	return fs
}

func (c C10Case) positions() []string {
	var ps []string
	for _, fs := range [][]c10Filter{c.Container, c.Service, c.Route} {
		for _, f := range fs {
			ps = append(ps, f.ID+":before", f.ID+":after")
		}
	}
	for i := 0; i <= len(c.Chunks); i++ {
		ps = append(ps, "h:"+strconv.Itoa(i))
	}
	ps = append(ps, "cond")
	// the route function calls a registration method that panics by contract (Handle on a
	// pattern that is already registered): the panic is raised inside the library
	ps = append(ps, "h:handle-twice")
	// the routing-error path: container filters run around the service-error writer
	for _, f := range c.Container {
		ps = append(ps, "404/"+f.ID+":before", "404/"+f.ID+":after")
	}
	ps = append(ps, "404/errwriter")
	return ps
}

func genC10(t *rapid.T) C10Case {
	c := C10Case{}
	c.Container = genC10Filters(t, "c")
	c.Service = genC10Filters(t, "s")
	c.Route = genC10Filters(t, "r")
	n := rapid.IntRange(0, 3).Draw(t, "nchunks")
	for i := 0; i < n; i++ {
		c.Chunks = append(c.Chunks, rapid.SampledFrom([]int{0, 1, 50, 3000, 70000}).Draw(t, "chunk"))
	}
	c.Recovery = rapid.SampledFrom([]string{"default", "custom", "custom", "off"}).Draw(t, "recovery")
	c.Encoding = rapid.SampledFrom([]string{"", "gzip", "deflate"}).Draw(t, "encoding")
	c.RouteEnc = c.Encoding != "" && rapid.Bool().Draw(t, "routeenc")
	c.Provider = rapid.SampledFrom([]string{"pool", "bounded0", "bounded1", "bounded4"}).Draw(t, "provider")
	c.Via = rapid.SampledFrom([]string{harness.ViaDispatch, harness.ViaServe}).Draw(t, "via")
	c.Router = rapid.SampledFrom([]string{model.Curly, model.JSR311}).Draw(t, "router")
	ps := c.positions()
	nt := rapid.IntRange(1, 5).Draw(t, "ntail")
	for i := 0; i < nt; i++ {
		if rapid.Bool().Draw(t, "tailpanics") {
			c.Tail = append(c.Tail, rapid.SampledFrom(ps).Draw(t, "tailpos"))
		} else {
			c.Tail = append(c.Tail, "")
		}
	}
	c.NilErr = rapid.IntRange(0, 5).Draw(t, "nilerr") == 0
	return c
}

const c10PanicHeader = "X-Panic-At"

type c10Env struct {
	ct          *restful.Container
	recCalls    int
	recValue    interface{}
	recWrote    []byte
	written     bytes.Buffer // bytes handed to the response by filters and handler, in order
	writeCalls  int          // number of Write calls (a zero-byte Write already commits the status)
	ledger      *harness.Ledger
	recBody     []byte
	customBody  []byte
	handleCalls int
	dead        bool // a request hung; nothing more can be learned from this container
}

func buildC10(c C10Case) *c10Env {
	e := &c10Env{customBody: []byte("custom recover handler body")}
	ct := restful.NewContainer()
	e.ct = ct
	if c.Router == model.JSR311 {
		ct.Router(restful.RouterJSR311{})
	}
	if c.Recovery != "off" {
		ct.DoNotRecover(false)
	}
	if c.Recovery == "custom" {
		ct.RecoverHandler(func(p interface{}, w http.ResponseWriter) {
			e.recCalls++
			e.recValue = p
			w.WriteHeader(503)
			w.Write(e.customBody)
		})
	}
	if c.Encoding != "" && !c.RouteEnc {
		ct.EnableContentEncoding(true)
	}
	maybePanic := func(req *http.Request, pos string) {
		if h := req.Header.Get(c10PanicHeader); h == pos || h == "404/"+pos {
			if c.NilErr {
				var ne *nilErr
				panic(error(ne))
			}
			panic(&panicToken{h})
		}
	}
	ct.ServiceErrorHandler(func(se restful.ServiceError, req *restful.Request, resp *restful.Response) {
		maybePanic(req.Request, "errwriter")
		b := []byte("service error " + strconv.Itoa(se.Code))
		resp.WriteHeader(se.Code)
		resp.Write(b)
		e.written.Write(b)
		e.writeCalls++
	})
	mk := func(f c10Filter) restful.FilterFunction {
		return func(req *restful.Request, resp *restful.Response, chain *restful.FilterChain) {
			maybePanic(req.Request, f.ID+":before")
			if f.Writes > 0 {
				b := payload(f.Writes, len(f.ID))
				resp.Write(b)
				e.written.Write(b)
				e.writeCalls++
			}
			chain.ProcessFilter(req, resp)
			maybePanic(req.Request, f.ID+":after")
		}
	}
	for _, f := range c.Container {
		ct.Filter(mk(f))
	}
	ws := new(restful.WebService)
	ws.Path("/svc")
	for _, f := range c.Service {
		ws.Filter(mk(f))
	}
	rb := ws.GET("/x/{id}").If(func(r *http.Request) bool { maybePanic(r, "cond"); return true })
	if c.RouteEnc {
		rb.ContentEncodingEnabled(true)
	}
	for _, f := range c.Route {
		rb.Filter(mk(f))
	}
	ws.Route(rb.To(func(req *restful.Request, resp *restful.Response) {
		if req.Request.Header.Get(c10PanicHeader) == "h:handle-twice" {
			e.handleCalls++
			pat := "/mounted-" + strconv.Itoa(e.handleCalls)
			ct.Handle(pat, http.NotFoundHandler())
			ct.Handle(pat, http.NotFoundHandler()) // panics: pattern already registered
		}
		for i, n := range c.Chunks {
			maybePanic(req.Request, "h:"+strconv.Itoa(i))
			b := payload(n, i)
			resp.Write(b)
			e.written.Write(b)
			e.writeCalls++
		}
		maybePanic(req.Request, "h:"+strconv.Itoa(len(c.Chunks)))
	}))
	ct.Add(ws)
	return e
}

type c10Resp struct {
	status  int
	body    []byte // decoded
	coded   string
	escaped interface{}
	decErr  error
	hung    string // the request did not return within 20s
}

func (e *c10Env) send(c C10Case, pos string) c10Resp {
	e.written.Reset()
	e.writeCalls = 0
	e.recCalls, e.recValue = 0, nil
	req := model.ReqSpec{Method: "GET", Path: "/svc/x/42"}
	if strings.HasPrefix(pos, "404/") {
		req.Path = "/svc/none"
	}
	if pos != "" {
		req.Headers = append(req.Headers, model.H{K: c10PanicHeader, V: pos})
	}
	if c.Encoding != "" {
		req.Headers = append(req.Headers, model.H{K: "Accept-Encoding", V: c.Encoding})
	}
	hr := harness.NewHTTPRequest(req, "0")
	w := httptest.NewRecorder()
	var r c10Resp
	served := make(chan struct{})
	go func() {
		defer close(served)
		defer func() { r.escaped = recover() }()
		if c.Via == harness.ViaServe {
			e.ct.ServeHTTP(w, hr)
		} else {
			e.ct.Dispatch(w, hr)
		}
	}()
	select {
	case <-served:
	case <-time.After(20 * time.Second):
		buf := make([]byte, 1<<20)
		buf = buf[:runtime.Stack(buf, true)]
		r.hung = "inconclusive"
		if strings.Contains(string(buf), "sync.(*RWMutex).RLock") || strings.Contains(string(buf), "sync.(*RWMutex).Lock") {
			r.hung = "a goroutine is parked on the container's RWMutex"
		}
		return r
	}
	r.status = w.Code
	r.coded = w.Header().Get("Content-Encoding")
	raw := w.Body.Bytes()
	switch r.coded {
	case "gzip":
		zr, err := gzip.NewReader(bytes.NewReader(raw))
		if err == nil {
			r.body, err = io.ReadAll(zr)
		}
		r.decErr = err
	case "deflate":
		zr, err := zlib.NewReader(bytes.NewReader(raw))
		if err == nil {
			r.body, err = io.ReadAll(zr)
		}
		r.decErr = err
	default:
		r.body = raw
	}
	return r
}

// judge one panicking (or normal) request on env; twin answers the normal request freshly.
func (e *c10Env) judge(c C10Case, pos, where string) (vs []*Violation) {
	if e.dead {
		return nil
	}
	r := e.send(c, pos)
	if r.hung != "" {
		e.dead = true
		if r.hung == "inconclusive" {
			inconclusive("C10", "TestC10", "a request did not return within 20s and no goroutine is parked on the RWMutex")
			return nil
		}
		return []*Violation{viol("", "%s: the request never returns: %s (a lock was left held by an earlier panic)", where, r.hung)}
	}
	before := append([]byte{}, e.written.Bytes()...)
	if pos == "" {
		tw := buildC10(c)
		restful.SetCompressorProvider(e.ledger) // buildC10 does not touch the provider; keep ours
		t := tw.send(c, "")
		if r.escaped != nil || r.status != t.status || !bytes.Equal(r.body, t.body) || r.coded != t.coded || r.decErr != nil {
			vs = append(vs, viol("", "%s: a normal request is answered {status=%d coded=%q body=%d bytes decodeErr=%v escaped=%v}, a fresh container answers {status=%d coded=%q body=%d bytes}", where, r.status, r.coded, len(r.body), r.decErr, r.escaped, t.status, t.coded, len(t.body)))
		}
		return vs
	}
	libraryPanic := pos == "h:handle-twice"
	if c.Recovery == "off" {
		ok := isPanicValue(c, r.escaped, pos)
		if libraryPanic {
			ok = r.escaped != nil
		}
		if !ok {
			vs = append(vs, viol("", "%s: recovery is off, the caller must see the panic value unchanged; got %v", where, r.escaped))
		}
		return vs
	}
	if r.escaped != nil {
		return append(vs, viol("", "%s: the panic escaped although recovery is switched on: %v", where, r.escaped))
	}
	if r.decErr != nil {
		return append(vs, viol("", "%s: the %s body does not decode completely: %v", where, r.coded, r.decErr))
	}
	if c.Recovery == "custom" {
		if e.recCalls != 1 {
			vs = append(vs, viol("", "%s: the recover handler ran %d times", where, e.recCalls))
		}
		if !libraryPanic && !isPanicValue(c, e.recValue, pos) {
			vs = append(vs, viol("", "%s: the recover handler received %v, not the panic value", where, e.recValue))
		}
		want := append(before, e.customBody...)
		if !bytes.Equal(r.body, want) {
			vs = append(vs, viol("", "%s: the client sees %d bytes, expected the %d bytes written before the panic plus the %d bytes of the recover handler (first difference at %d)", where, len(r.body), len(before), len(e.customBody), firstDiff(r.body, want)))
		}
		if e.writeCalls == 0 && r.status != 503 {
			vs = append(vs, viol("", "%s: nothing had been written, the client must see the recover handler's status 503, got %d", where, r.status))
		}
	} else {
		report := []byte("recover from panic situation: - ")
		if !bytes.HasPrefix(r.body, before) || !bytes.HasPrefix(r.body[len(before):], report) {
			vs = append(vs, viol("", "%s: the client sees %d bytes that are not the %d bytes written before the panic followed by the default recover handler's report", where, len(r.body), len(before)))
		} else if n := bytes.Count(r.body[len(before):], report); n != 1 {
			vs = append(vs, viol("", "%s: the body carries %d panic reports; this request panicked once (reports of earlier requests leak into it)", where, n))
		}
		if e.writeCalls == 0 && r.status != 500 {
			vs = append(vs, viol("", "%s: nothing had been written, the client must see status 500, got %d", where, r.status))
		}
	}
	return vs
}

func (e *c10Env) usable(c C10Case, where string) (vs []*Violation) {
	if e.dead {
		return nil
	}
	if h := e.ledger.Held(); h != 0 {
		vs = append(vs, viol("", "%s: %d compressors are still held", where, h))
	}
	for _, p := range e.ledger.Problems() {
		vs = append(vs, viol("", "%s: %s", where, p))
	}
	// a leaked read lock would park Add in RWMutex.Lock
	done := make(chan struct{})
	go func() {
		defer close(done)
		extra := new(restful.WebService)
		extra.Path("/extra-" + strconv.Itoa(len(where)))
		extra.Route(extra.GET("/").To(func(*restful.Request, *restful.Response) {}))
		e.ct.Add(extra)
		e.ct.Remove(extra)
	}()
	select {
	case <-done:
	case <-time.After(10 * time.Second):
		buf := make([]byte, 1<<20)
		buf = buf[:runtime.Stack(buf, true)]
		if strings.Contains(string(buf), "sync.(*RWMutex).Lock") {
			vs = append(vs, viol("", "%s: Add/Remove is parked in RWMutex.Lock: the container's lock was left held", where))
		} else {
			inconclusive("C10", "TestC10", "Add/Remove did not complete within 10s and no goroutine is parked in RWMutex.Lock")
		}
	}
	return vs
}

var c10DefaultOnce bool

func checkC10Defaults() (vs []*Violation) {
	st := stats.For("C10", "TestC10")
	for name, ct := range map[string]*restful.Container{"NewContainer()": restful.NewContainer(), "the package-level DefaultContainer": harness.OriginalDefaultContainer} {
		if name != "NewContainer()" && c10DefaultOnce {
			continue // its ServeMux is http.DefaultServeMux: a root path can only be added once per process
		}
		ws := new(restful.WebService)
		ws.Path("/verif-c10-defaults")
		tok := &panicToken{"default"}
		ws.Route(ws.GET("/p").To(func(*restful.Request, *restful.Response) { panic(tok) }))
		ct.Add(ws)
		if name != "NewContainer()" {
			c10DefaultOnce = true
		}
		var escaped interface{}
		w := httptest.NewRecorder()
		func() {
			defer func() { escaped = recover() }()
			ct.Dispatch(w, harness.NewHTTPRequest(model.ReqSpec{Method: "GET", Path: "/verif-c10-defaults/p"}, "d"))
		}()
		if escaped != tok {
			vs = append(vs, viol("", "%s, nothing configured: recovery is documented to be off by default, but a panic in a route function did not reach the caller unchanged (recovered value %v, status %d)", name, escaped, w.Code))
		}
		st.Case(C10Case{Defaults: true, Provider: name}, true, "defaults_check")
	}
	return vs
}

func checkC10(c C10Case) (vs []*Violation) {
	if c.Defaults {
		return checkC10Defaults()
	}
	st := stats.For("C10", "TestC10")
	defer harness.ResetGlobals()
	positions := c.positions()
	if c.OnlyPos != "" {
		positions = []string{c.OnlyPos}
	}
	for _, pos := range positions {
		ledger := harness.NewLedger(harness.ProviderFor(c.Provider))
		restful.SetCompressorProvider(ledger)
		e := buildC10(c)
		e.ledger = ledger
		where := fmt.Sprintf("recovery=%s encoding=%q(route=%v) provider=%s via=%s router=%s chain=%dc/%ds/%dr chunks=%v, panic at %s", c.Recovery, c.Encoding, c.RouteEnc, c.Provider, c.Via, c.Router, len(c.Container), len(c.Service), len(c.Route), c.Chunks, pos)
		pv := e.judge(c, pos, where)
		partial := e.written.Len() > 0
		pv = append(pv, e.judge(c, "", where+"; then a normal request")...)
		for i, tp := range c.Tail {
			pv = append(pv, e.judge(c, tp, where+fmt.Sprintf("; then tail#%d (panic at %q)", i, tp))...)
		}
		pv = append(pv, e.usable(c, where)...)
		nontrivial := partial || c.Encoding != "" || pos == "cond"
		labels := []string{"recovery_" + c.Recovery, "via_" + c.Via}
		switch {
		case pos == "cond":
			labels = append(labels, "pos_condition_in_selection")
		case strings.HasPrefix(pos, "404/"):
			labels = append(labels, "pos_routing_error_path")
		case strings.HasPrefix(pos, "h:"):
			labels = append(labels, "pos_handler")
		case strings.HasSuffix(pos, ":before"):
			labels = append(labels, "pos_filter_before")
		default:
			labels = append(labels, "pos_filter_after")
		}
		if partial {
			labels = append(labels, "after_partial_output")
		}
		if c.Encoding != "" {
			labels = append(labels, "under_encoding")
		}
		one := c
		one.OnlyPos = pos
		st.Case(one, nontrivial, labels...)
		if len(pv) > 0 {
			// make the saved case point at the failing position
			for _, v := range pv {
				v.Msg = "[position " + pos + "] " + v.Msg
			}
			vs = append(vs, pv...)
		}
	}
	return vs
}

func TestC10(t *testing.T) {
	if vs := checkC10(C10Case{Defaults: true}); len(vs) > 0 {
		saveFound("C10", "TestC10", C10Case{Defaults: true}, vs[0])
		t.Fatalf("C10: %s", vs[0].Msg)
	}
	rapid.Check(t, func(t *rapid.T) {
		harness.ResetGlobals()
		c := genC10(t)
		report(t, "C10", "TestC10", c, checkC10(c))
	})
}
