package props

import (
	"bytes"
	"compress/gzip"
	"compress/zlib"
	"errors"
	"fmt"
	"io"
	"net/http"
	"strconv"
	"testing"

	restful "github.com/emicklei/go-restful/v3"
	"pgregory.net/rapid"

	"verif/internal/harness"
	"verif/internal/model"
	"verif/internal/stats"
)

// C15 – response status and length bookkeeping match what was actually sent.

func init() { registerPart("C15", "TestC15", jsonReplay(checkC15)) }

// countingWriter is the underlying http.ResponseWriter: it records the statuses it receives,
// counts accepted body bytes and fails from byte FailAt on (partial acceptance).
type countingWriter struct {
	header   http.Header
	statuses []int
	accepted int
	failAt   int // -1: never
	errs     int // number of errors returned so far
	buf      bytes.Buffer
}

var errInjected = errors.New("injected write failure")

func newCountingWriter(failAt int) *countingWriter {
	return &countingWriter{header: http.Header{}, failAt: failAt}
}

func (w *countingWriter) Header() http.Header { return w.header }
func (w *countingWriter) WriteHeader(s int)   { w.statuses = append(w.statuses, s) }
func (w *countingWriter) Write(p []byte) (int, error) {
	if w.failAt < 0 {
		w.accepted += len(p)
		w.buf.Write(p)
		return len(p), nil
	}
	room := w.failAt - w.accepted
	if room < 0 {
		room = 0
	}
	if len(p) <= room {
		w.accepted += len(p)
		w.buf.Write(p)
		return len(p), nil
	}
	w.accepted += room
	w.buf.Write(p[:room])
	w.errs++
	return room, errInjected
}

// RespOp is one call on the Response.
type RespOp struct {
	Call   string `json:"call"`
	Status int    `json:"status,omitempty"`
	Nil    bool   `json:"nil,omitempty"`     // entity value is nil
	Size   int    `json:"size,omitempty"`    // payload size (raw write / string field)
	CT     string `json:"ct,omitempty"`      // content type argument of WriteJson etc.
	NilErr bool   `json:"nil_err,omitempty"` // WriteError with a nil error
}

// C15Case is one sequence.
type C15Case struct {
	Produces []string `json:"produces,omitempty"`
	Accept   string   `json:"accept,omitempty"`
	Pretty   bool     `json:"pretty"`
	Encoding string   `json:"encoding,omitempty"` // "", gzip, deflate
	FailPos  int      `json:"fail_pos"`           // per-mille of the total output; -1 never
	// Middleware: a route filter built with HttpMiddlewareHandlerToFilter sits between the
	// trailing container filter and the handler
	Middleware bool     `json:"middleware,omitempty"`
	Ops        []RespOp `json:"ops"`
	// Plain: the target is a plain http.Handler registered with HandleWithFilter and reached
	// through ServeHTTP; it only knows http.ResponseWriter (WriteHeader for the first call, Write)
	Plain bool `json:"plain,omitempty"`
	// Rewrap: the route function hands its Response to a helper that wraps it once more
	// (restful.NewResponse(resp)) and writes through the wrapper; the filters keep observing the
	// Response they passed on
	Rewrap bool `json:"rewrap,omitempty"`
	// RouteOff: the container encodes, the route opted out (ContentEncodingEnabled(false)) and the
	// request arrives through ServeHTTP; whatever the framework then does about the coding, the
	// bookkeeping must match what the underlying writer received
	RouteOff bool `json:"route_off,omitempty"`
}

type c15Entity struct {
	Name  string   `json:"name" xml:"name"`
	N     int      `json:"n" xml:"n"`
	Items []string `json:"items" xml:"items"`
}

var firstCalls = []string{"WriteHeader", "WriteEntity", "WriteHeaderAndEntity", "WriteAsJson", "WriteAsXml", "WriteJson", "WriteHeaderAndJson", "WriteHeaderAndXml", "WriteError", "WriteErrorString", "WriteServiceError"}

func genC15(t *rapid.T) C15Case {
	var c C15Case
	c.Produces = rapid.SampledFrom([][]string{{restful.MIME_JSON, restful.MIME_XML}, {restful.MIME_JSON}, {restful.MIME_XML}, {"text/plain"}, nil, {restful.MIME_XML, restful.MIME_JSON}}).Draw(t, "produces")
	acc := []string{"", "*/*"}
	acc = append(acc, c.Produces...)
	c.Accept = rapid.SampledFrom(acc).Draw(t, "accept")
	c.Pretty = rapid.Bool().Draw(t, "pretty")
	c.Encoding = rapid.SampledFrom([]string{"", "", "", "gzip", "deflate"}).Draw(t, "encoding")
	if rapid.IntRange(0, 3).Draw(t, "hasfirst") > 0 {
		op := RespOp{Call: rapid.SampledFrom(firstCalls).Draw(t, "first")}
		op.Status = rapid.SampledFrom([]int{200, 201, 202, 204, 304, 400, 404, 409, 500, 503}).Draw(t, "status")
		op.Nil = rapid.IntRange(0, 7).Draw(t, "nilvalue") == 0
		op.Size = rapid.SampledFrom([]int{0, 1, 5, 40, 300, 5000}).Draw(t, "entitysize")
		op.CT = rapid.SampledFrom([]string{restful.MIME_JSON, "application/vnd.x+json"}).Draw(t, "ctarg")
		op.NilErr = rapid.IntRange(0, 4).Draw(t, "nilerr") == 0
		c.Ops = append(c.Ops, op)
	}
	nw := rapid.IntRange(0, 8).Draw(t, "nwrites")
	for i := 0; i < nw; i++ {
		c.Ops = append(c.Ops, RespOp{Call: "Write", Size: rapid.SampledFrom([]int{0, 1, 2, 7, 20, 64, 1000, 70000}).Draw(t, "writesize")})
	}
	c.Middleware = rapid.IntRange(0, 3).Draw(t, "middleware") == 0
	c.Plain = rapid.IntRange(0, 5).Draw(t, "plainhandler") == 0
	c.Rewrap = !c.Plain && rapid.IntRange(0, 5).Draw(t, "rewrap") == 0
	c.FailPos = -1
	if c.Encoding == "" && rapid.IntRange(0, 2).Draw(t, "fails") > 0 {
		c.FailPos = rapid.IntRange(0, 1050).Draw(t, "failpos")
	} else if c.Encoding != "" && rapid.IntRange(0, 3).Draw(t, "failsundercoding") == 0 {
		c.FailPos = rapid.IntRange(0, 1050).Draw(t, "failpos")
	}
	c.RouteOff = c.Encoding != "" && !c.Plain && rapid.IntRange(0, 4).Draw(t, "routeoff") == 0
	return c
}

func payload(n int, salt int) []byte {
	b := make([]byte, n)
	for i := range b {
		b[i] = byte('a' + (i*7+salt)%23)
	}
	return b
}

type c15Obs struct {
	status, length int
	ran            bool
}

// runC15 executes the sequence through a container; failAt in bytes (-1 never).
func runC15(c C15Case, failAt int) (cw *countingWriter, obs c15Obs, vs []*Violation, panicked interface{}) {
	restful.PrettyPrintResponses = c.Pretty
	cw = newCountingWriter(failAt)
	ct := restful.NewContainer()
	if c.Encoding != "" {
		ct.EnableContentEncoding(true)
	}
	ct.Filter(func(req *restful.Request, resp *restful.Response, chain *restful.FilterChain) {
		chain.ProcessFilter(req, resp)
		obs = c15Obs{resp.StatusCode(), resp.ContentLength(), true}
	})
	ws := new(restful.WebService)
	ws.Path("/")
	rb := ws.GET("/x")
	if len(c.Produces) > 0 {
		rb.Produces(c.Produces...)
	}
	if c.RouteOff {
		rb.ContentEncodingEnabled(false)
	}
	if c.Middleware {
		rb.Filter(restful.HttpMiddlewareHandlerToFilter(func(next http.Handler) http.Handler {
			return http.HandlerFunc(func(w http.ResponseWriter, r *http.Request) { next.ServeHTTP(w, r) })
		}))
	}
	ws.Route(rb.To(func(req *restful.Request, resp *restful.Response) {
		if c.Rewrap {
			resp = restful.NewResponse(resp)
			resp.SetRequestAccepts(c.Accept)
		}
		for i, op := range c.Ops {
			var val interface{}
			if !op.Nil {
				val = c15Entity{Name: string(payload(op.Size, i)), N: i, Items: []string{"x", "y"}}
			}
			errsBefore, accBefore := cw.errs, cw.accepted
			var err error
			n, wrote := 0, false
			switch op.Call {
			case "Write":
				n, err = resp.Write(payload(op.Size, i))
				wrote = true
			case "WriteHeader":
				resp.WriteHeader(op.Status)
			case "WriteEntity":
				err = resp.WriteEntity(val)
			case "WriteHeaderAndEntity":
				err = resp.WriteHeaderAndEntity(op.Status, val)
			case "WriteAsJson":
				err = resp.WriteAsJson(val)
			case "WriteAsXml":
				err = resp.WriteAsXml(val)
			case "WriteJson":
				err = resp.WriteJson(val, op.CT)
			case "WriteHeaderAndJson":
				err = resp.WriteHeaderAndJson(op.Status, val, op.CT)
			case "WriteHeaderAndXml":
				err = resp.WriteHeaderAndXml(op.Status, val)
			case "WriteError":
				if op.NilErr {
					err = resp.WriteError(op.Status, nil)
				} else {
					err = resp.WriteError(op.Status, errors.New(string(payload(op.Size, i))))
				}
			case "WriteErrorString":
				err = resp.WriteErrorString(op.Status, string(payload(op.Size, i)))
			case "WriteServiceError":
				err = resp.WriteServiceError(op.Status, restful.NewError(op.Status, string(payload(op.Size, i))))
			}
			if c.Encoding == "" {
				if cw.errs > errsBefore && err != errInjected && !errors.Is(err, errInjected) {
					vs = append(vs, viol("", "op#%d %s: the underlying writer failed during this call (accepting %d of its bytes) but the call returned %v", i, op.Call, cw.accepted-accBefore, err))
				}
				if wrote && n != cw.accepted-accBefore {
					vs = append(vs, viol("", "op#%d Write: returned n=%d, the underlying writer accepted %d", i, n, cw.accepted-accBefore))
				}
			}
		}
	}))
	ct.Add(ws)
	req := model.ReqSpec{Method: "GET", Path: "/x"}
	if c.Plain {
		req.Path = "/plain/x"
		ct.HandleWithFilter("/plain/", http.HandlerFunc(func(w http.ResponseWriter, r *http.Request) {
			for i, op := range c.Ops {
				errsBefore, accBefore := cw.errs, cw.accepted
				if op.Call != "Write" {
					w.WriteHeader(op.Status)
					continue
				}
				n, err := w.Write(payload(op.Size, i))
				if c.Encoding == "" {
					if cw.errs > errsBefore && err != errInjected && !errors.Is(err, errInjected) {
						vs = append(vs, viol("", "op#%d Write of a plain handler: the underlying writer failed during this call (accepting %d of its bytes) but the call returned %v", i, cw.accepted-accBefore, err))
					}
					if n != cw.accepted-accBefore {
						vs = append(vs, viol("", "op#%d Write of a plain handler: returned n=%d, the underlying writer accepted %d", i, n, cw.accepted-accBefore))
					}
				}
			}
		}))
	}
	if c.Accept != "" {
		req.Headers = append(req.Headers, model.H{K: "Accept", V: c.Accept})
	}
	if c.Encoding != "" {
		req.Headers = append(req.Headers, model.H{K: "Accept-Encoding", V: c.Encoding})
	}
	hr := harness.NewHTTPRequest(req, "0")
	func() {
		defer func() { panicked = recover() }()
		if c.Plain || c.RouteOff {
			ct.ServeHTTP(cw, hr)
			return
		}
		ct.Dispatch(cw, hr)
	}()
	return
}

func checkC15(c C15Case) (vs []*Violation) {
	st := stats.For("C15", "TestC15")
	defer harness.ResetGlobals()
	labels := []string{}
	// dry run without failure to learn the total output size
	dry, _, _, p := runC15(c, -1)
	if p != nil {
		return []*Violation{viol("", "panic: %v", p)}
	}
	total := dry.accepted
	failAt := -1
	if c.FailPos >= 0 {
		failAt = total * c.FailPos / 1000
		if c.FailPos > 1000 {
			failAt = total + 1
		}
	}
	cw, obs, vs, p := runC15(c, failAt)
	if p != nil {
		return []*Violation{viol("", "panic: %v", p)}
	}
	if !obs.ran {
		return append(vs, viol("", "the trailing filter did not run"))
	}
	// status
	wantStatus := 200
	if len(cw.statuses) > 0 {
		wantStatus = cw.statuses[0]
	}
	if len(cw.statuses) > 1 {
		labels = append(labels, "status_received_twice")
	}
	desc := fmt.Sprintf("produces=%v accept=%q pretty=%v encoding=%q failAt=%d/%d ops=%v", c.Produces, c.Accept, c.Pretty, c.Encoding, failAt, total, c.Ops)
	if obs.status != wantStatus {
		vs = append(vs, viol("", "%s: StatusCode()=%d but the underlying writer received %v", desc, obs.status, cw.statuses))
	}
	// length
	wantLen := cw.accepted
	ce := cw.header.Get("Content-Encoding")
	if ce != "" && failAt >= 0 {
		// a coding in between and a failing writer: "accepted before coding" cannot be measured
		// from outside; what can is that the count is neither negative nor more than was written
		written := 0
		for _, op := range c.Ops {
			if op.Call == "Write" {
				written += op.Size
			}
		}
		labels = append(labels, "failure_under_a_coding")
		if obs.length < 0 || (len(c.Ops) > 0 && c.Ops[0].Call == "Write" && obs.length > written) {
			vs = append(vs, viol("", "%s: ContentLength()=%d although %d bytes were handed to Write in total", desc, obs.length, written))
		}
		st.Case(c, failAt < total, labels...)
		return vs
	}
	if ce != "" {
		var r io.Reader
		var err error
		if ce == "gzip" {
			r, err = gzip.NewReader(bytes.NewReader(cw.buf.Bytes()))
		} else {
			r, err = zlib.NewReader(bytes.NewReader(cw.buf.Bytes()))
		}
		if err != nil {
			return append(vs, viol("", "%s: cannot decode the response: %v", desc, err))
		}
		plain, err := io.ReadAll(r)
		if err != nil {
			return append(vs, viol("", "%s: cannot decode the response: %v", desc, err))
		}
		wantLen = len(plain)
		labels = append(labels, "coding_underneath")
	}
	if obs.length != wantLen {
		vs = append(vs, viol("", "%s: ContentLength()=%d but %d body bytes were accepted (before coding)", desc, obs.length, wantLen))
	}
	nontrivial := false
	if failAt > 0 && failAt < total {
		nontrivial = true
		labels = append(labels, "failure_strictly_inside_output")
	} else if failAt == 0 && total > 0 {
		labels = append(labels, "failure_at_first_byte")
	}
	if c.Encoding != "" && total > 0 {
		nontrivial = true
	}
	if len(c.Ops) > 0 {
		labels = append(labels, "first_"+c.Ops[0].Call)
		if c.Ops[0].Call == "WriteAsXml" || c.Ops[0].Call == "WriteHeaderAndXml" {
			if c.Pretty && !c.Ops[0].Nil {
				nontrivial = true
				labels = append(labels, "multi_write_entity")
			}
		}
	}
	if c.Plain {
		labels = append(labels, "plain_handler_behind_HandleWithFilter")
	}
	if c.Rewrap {
		labels = append(labels, "handler_writes_through_a_second_wrapper")
	}
	if obs.status == 406 {
		labels = append(labels, "entity_writer_406")
	}
	labels = append(labels, "status_"+strconv.Itoa(obs.status/100)+"xx")
	st.Case(c, nontrivial, labels...)
	return vs
}

func TestC15(t *testing.T) {
	rapid.Check(t, func(t *rapid.T) {
		harness.ResetGlobals()
		c := genC15(t)
		report(t, "C15", "TestC15", c, checkC15(c))
	})
}
